/-
C03 — each step merges a closest pair of the clusters then existing, ties included.

Full statement (`C03_statement`, a definition, nothing asserted): for every entry point and every
method it accepts, the steps RETURNED on a valid matrix, replayed with the independent label-based
Lance–Williams bookkeeping of `Kodama/Spec/Naive.lean` (a table between live cluster labels, no
condensed indices, no active list, no heap), are a greedy run: `Spec.GreedyValid m n data`.

## Proved here — entry point `primitive_with` (model `primitiveWith`, both build modes `chk`,
## every prior `LinkageState`/`Dendrogram`), every `2 ≤ n < 2^31`, every `data` with
## `data.size = n(n-1)/2`, abstract number type `α`

Building blocks (valid for ALL seven methods and any update function):
* `C03_primitive_argmin_min`   `argmin` returns a live pair `a < b`, its entry `v`, and no live pair
                      has a strictly smaller entry (global minimum; nothing about which pair wins a
                      tie).  Needs `OrderLaws α` and non-NaN entries at live pairs.
* `C03_primitive_update_spec`  exact effect of the three-range update `updateRows … a b`: for every
                      live `x ∉ {a,b}` entry `{x,b}` becomes `upd x (old{x,a}) (old{x,b})`, every
                      other entry is unchanged (no number law; uses injectivity of the generated
                      index expression, C07).

Simulation (all seven methods):
* `C03_primitive_mergeorder`   the main loop is total and the raw dendrogram `dend1` it leaves,
                      relabelled IN MERGE ORDER (`mergeOrder`: step `k` creates label `n+k`, the
                      cluster living at the index kept by the merge; heights passed through
                      `Spec.post`, i.e. the final `sqrt` for Ward/centroid/median), is
                      `Spec.GreedyValid m n data`; the raw heights are the spec's table values and
                      are not NaN; and `primitiveWith` IS that loop followed by `relabel m` and
                      `sqrtSteps m`.
  Hypotheses: `OrderLaws α`; `Spec.LwSymm α m` (the update is symmetric in the two merged
  clusters — needed because the model passes `(entry{x,a}, entry{x,b}, sizes[a], sizes[b])` with
  `a < b` INDICES while the spec orders the two merged LABELS; proved in `Lemmas/SpecLaws.lean` from
  commutativity of `+`/`×` for weighted/Ward/centroid/median, from `LtTrichotomy` for
  single/complete, and from both for the clamped average of the repaired crate); `Spec.NoNaNRun m n data`: no state reached by a greedy run of the SPEC from the
  initial table has a NaN at a live pair (includes: the — squared, for the methods on squares —
  input entries are not NaN).  `Spec.noNaNRun_of_lwNoNaN` derives it from non-NaN input entries
  (`Spec.InitNoNaN`) when the formula maps non-NaN to non-NaN (`Spec.LwNoNaN`; automatic for
  single/complete).

The RETURNED dendrogram (`relabel` = stable sort by height unless centroid/median, then union–find
labels; then `sqrtSteps`):
* `C03_primitive_unsorted`     `m.requiresSorting = false` (centroid, median): the call returns
                      normally and the returned steps are `GreedyValid m n data` — they ARE the
                      merge-order relabelling (`relabel`'s union–find labels coincide with the
                      merge-order labels).
* `C03_primitive_of_monotone`  any method: the same, under the HYPOTHESIS that the raw heights left
                      by the loop are non-decreasing (then `List.mergeSort` is the identity).
* `C03_primitive_reducible`    any method with `Spec.Reducible α m` (HYPOTHESIS, for non-NaN
                      arguments: `dab ≤ dax`, `dab ≤ dbx` ⇒ `dab ≤ lw m dax dbx dab …`; implied under
                      `OrderLaws` by the textbook form `Spec.ReducibleMin` "`… ⇒ min dax dbx ≤ lw …`",
                      `Spec.reducible_of_min`): the raw heights are non-decreasing
                      (`Spec.greedy_heights_mono`, a theorem about the SPEC), hence the stable sort is
                      the identity and the returned steps are `GreedyValid`.
* `C03_primitive_single`, `C03_primitive_complete`   `Reducible`, `LwNoNaN` are theorems for these
                      two; remaining hypotheses: `OrderLaws α`, `LtTrichotomy α`, non-NaN input.

## NOT proved here
* nnchain, generic, mst, linkage (other files / other people; nnchain's global step is the unproved
  `RNN_sorted_is_greedy`).
* `Spec.Reducible α m` for average / weighted / Ward: true in exact arithmetic (ordered field),
  FALSE under IEEE rounding (`(sa·x+sb·x)/(sa+sb) < x` in ~11 % of random f32 cases), so for these
  three methods the theorem about the returned dendrogram is an exact-arithmetic statement with
  `Reducible` as an explicit hypothesis; the float gap (tolerance 1e-9 / 1e-3) is measured by the
  oracle, not proved.  Centroid/median are not reducible but need no sort.
* `LtTrichotomy α` is false for IEEE floats (`±0`, NaN): for floats `C03_primitive_single/complete`
  speak about inputs on which incomparable values are equal.
* first-wins tie-breaking of `argmin` (not part of the property).

## Trusted
The definitions in `Spec/Naive.lean`, `Spec/Pairs.lean` (the specification); that the model
`primitiveWith` is the Rust `primitive_with` (translator for the formulas/index expression/tables,
bit-exact correspondence run for the loops); std's `sort_by` being a stable sort (`List.mergeSort`).
-/
import Kodama.Lemmas.PrimGreedyRun
import Kodama.Lemmas.SpecDecide
import Kodama.Lemmas.GenericGreedySpec
import Kodama.Lemmas.GenericExample
import Kodama.Model.Linkage
import Kodama.Lemmas.ReduciblePos
import Kodama.Lemmas.FieldInstances
import Mathlib.Algebra.Order.Field.Rat
namespace Kodama
open Spec
variable {α : Type} [Num α]

/-- Full statement of C03 (not asserted): every entry point returns a greedy-valid dendrogram on
every valid matrix. -/
def C03_statement (α : Type) [Num α] : Prop :=
  ∀ (chk : Bool) (alg : Alg) (m : Method), alg.accepts m = true →
    ∀ (st : State α) (d : Dendrogram α) (data : Array α) (n : Nat), 2 ≤ n → n < 2147483648 →
      2 * data.size = n * (n - 1) →
      ∀ st' dend' M', runWith chk alg m st d data n = .ok (st', dend', M') →
        GreedyValid m n data dend'.steps.toList

/-! ## Stage 1 and 2: the search and the update -/

/-- `argmin` returns a global minimum over the live pairs. -/
theorem C03_primitive_argmin_min (L : OrderLaws α) (chk : Bool) (n : Nat) (act : Active)
    (live : List Nat) (hrep : act.Rep live n) (hlen : 2 ≤ live.length) (M : Mat α) (hv : M.Valid)
    (hn : M.n = n)
    (hnn : ∀ x ∈ live, ∀ y ∈ live, x < y → ∀ w, M.get chk x y = .ok w → Num.isNaN w = false) :
    ∃ a b v, argmin chk M act = .ok (some (a, b, v)) ∧ a < b ∧ a ∈ live ∧ b ∈ live ∧
      M.get chk a b = .ok v ∧
      ∀ x ∈ live, ∀ y ∈ live, x < y → ∀ w, M.get chk x y = .ok w → Num.lt w v = false :=
  argmin_min L chk n act live hrep hlen M hv hn hnn

/-- The matrix after the three-range update (`mget chk M x y = M.get chk (min x y) (max x y)`). -/
theorem C03_primitive_update_spec (chk : Bool) (n : Nat) (act : Active) (live : List Nat)
    (hrep : act.Rep live n) (upd : Nat → α → α → R α)
    (a b : Nat) (hab : a < b) (ha : a ∈ live) (hb : b ∈ live) (M M' : Mat α) (hv : M.Valid)
    (hn : M.n = n) (h : updateRows chk act upd a b M = .ok M') :
    M'.n = n ∧ M'.data.size = M.data.size ∧
    (∀ x ∈ live, x ≠ a → x ≠ b → ∃ va vb v, mget chk M x a = .ok va ∧ mget chk M x b = .ok vb ∧
        upd x va vb = .ok v ∧ mget chk M' x b = .ok v) ∧
    (∀ r c, r < c → c < n → (∀ x ∈ live, x ≠ a → x ≠ b → (r, c) ≠ (min x b, max x b)) →
        M'.get chk r c = M.get chk r c) :=
  updateRows_spec chk n act live hrep upd a b hab ha hb M M' hv hn h

/-! ## Stage 3: the loop is a greedy run in merge order -/

/-- The main loop of `primitive_with`, relabelled in merge order, is a greedy run of the spec. -/
theorem C03_primitive_mergeorder (L : OrderLaws α) (chk : Bool) (m : Method) (hsym : LwSymm α m)
    (st : State α) (d : Dendrogram α) (data : Array α) (n : Nat) (h2 : 2 ≤ n)
    (hs : n < 2147483648) (hl : 2 * data.size = n * (n - 1)) (hnn : NoNaNRun m n data) :
    ∃ (st1 : State α) (dend1 : Dendrogram α) (M1 : Mat α),
      iterM (primitiveIter chk m) (n - 1)
        ((State.fresh n : State α), Dendrogram.new n,
          ({ data := squareData m data, n := n, acc := 0 } : Mat α)) = .ok (st1, dend1, M1) ∧
      primitiveWith chk m st d data n =
        (relabel m st1.set dend1 >>= fun r =>
          pure ({ st1 with set := r.1 }, sqrtSteps m r.2, M1)) ∧
      GreedyValid m n data (mergeOrder m n dend1.steps.toList) ∧
      dend1.steps.toList.map (·.d)
        = rawHeights m (init m n data) (mergeOrder m n dend1.steps.toList) ∧
      (∀ s ∈ dend1.steps.toList, Num.isNaN s.d = false) := by
  obtain ⟨st1, dend1, M1, hloop, hres, heq⟩ := primitiveWith_sim L chk m hsym st d data n h2 hs hl hnn
  exact ⟨st1, dend1, M1, hloop, heq, hres.valid, hres.hts, hres.noNaN hnn⟩

/-! ## Stage 4: the returned dendrogram -/

/-- Any method: the returned steps are greedy-valid whenever the raw heights left by the loop are
non-decreasing (hypothesis `hmono`; then the stable sort of `relabel` is the identity). -/
theorem C03_primitive_of_monotone (L : OrderLaws α) (chk : Bool) (m : Method) (hsym : LwSymm α m)
    (st : State α) (d : Dendrogram α) (data : Array α) (n : Nat) (h2 : 2 ≤ n)
    (hs : n < 2147483648) (hl : 2 * data.size = n * (n - 1)) (hnn : NoNaNRun m n data)
    (hmono : ∀ st1 dend1 M1,
      iterM (primitiveIter chk m) (n - 1)
        ((State.fresh n : State α), Dendrogram.new n,
          ({ data := squareData m data, n := n, acc := 0 } : Mat α)) = .ok (st1, dend1, M1) →
      dend1.steps.toList.Pairwise (fun s t => Num.lt t.d s.d = false)) :
    ∃ st' dend' M', primitiveWith chk m st d data n = .ok (st', dend', M') ∧
      GreedyValid m n data dend'.steps.toList := by
  obtain ⟨st1, dend1, M1, hloop, hres, heq⟩ := primitiveWith_sim L chk m hsym st d data n h2 hs hl hnn
  obtain ⟨uf, d', hr, _, hg⟩ := relabel_greedy hres hnn h2 st1.set
    (processed_of_pairwise m _ (hmono st1 dend1 M1 hloop))
  refine ⟨{ st1 with set := uf }, sqrtSteps m d', M1, ?_, hg⟩
  rw [heq, hr]; rfl

/-- Centroid and median (no sort): the returned steps are greedy-valid. -/
theorem C03_primitive_unsorted (L : OrderLaws α) (chk : Bool) (m : Method)
    (hm : m.requiresSorting = false) (hsym : LwSymm α m)
    (st : State α) (d : Dendrogram α) (data : Array α) (n : Nat) (h2 : 2 ≤ n)
    (hs : n < 2147483648) (hl : 2 * data.size = n * (n - 1)) (hnn : NoNaNRun m n data) :
    ∃ st' dend' M', primitiveWith chk m st d data n = .ok (st', dend', M') ∧
      GreedyValid m n data dend'.steps.toList := by
  obtain ⟨st1, dend1, M1, _, hres, heq⟩ := primitiveWith_sim L chk m hsym st d data n h2 hs hl hnn
  obtain ⟨uf, d', hr, _, hg⟩ := relabel_greedy hres hnn h2 st1.set (processed_of_unsorted m _ hm)
  refine ⟨{ st1 with set := uf }, sqrtSteps m d', M1, ?_, hg⟩
  rw [heq, hr]; rfl

/-- Reducible methods: the merge-order heights never decrease, so the stable sort is the identity and
the returned steps are greedy-valid. -/
theorem C03_primitive_reducible (L : OrderLaws α) (chk : Bool) (m : Method) (hsym : LwSymm α m)
    (hred : Reducible α m)
    (st : State α) (d : Dendrogram α) (data : Array α) (n : Nat) (h2 : 2 ≤ n)
    (hs : n < 2147483648) (hl : 2 * data.size = n * (n - 1)) (hnn : NoNaNRun m n data) :
    ∃ st' dend' M', primitiveWith chk m st d data n = .ok (st', dend', M') ∧
      GreedyValid m n data dend'.steps.toList := by
  obtain ⟨st1, dend1, M1, hloop, hres, heq⟩ := primitiveWith_sim L chk m hsym st d data n h2 hs hl hnn
  have hpw : dend1.steps.toList.Pairwise (fun s t => Num.lt t.d s.d = false) := by
    have h := greedy_heights_mono L hred (mergeOrder m n dend1.steps.toList) (init m n data) 0
      (init_StInv m n data) hres.valid.2 (runNoNaN_of_noNaNRun hnn _ [] hres.valid.2)
    rw [← hres.hts, List.pairwise_map] at h
    exact h
  obtain ⟨uf, d', hr, _, hg⟩ := relabel_greedy hres hnn h2 st1.set (processed_of_pairwise m _ hpw)
  refine ⟨{ st1 with set := uf }, sqrtSteps m d', M1, ?_, hg⟩
  rw [heq, hr]; rfl

/-- Single linkage through `primitive_with`. -/
theorem C03_primitive_single (L : OrderLaws α) (T : LtTrichotomy α) (chk : Bool)
    (st : State α) (d : Dendrogram α) (data : Array α) (n : Nat) (h2 : 2 ≤ n)
    (hs : n < 2147483648) (hl : 2 * data.size = n * (n - 1)) (h0 : InitNoNaN .single n data) :
    ∃ st' dend' M', primitiveWith chk .single st d data n = .ok (st', dend', M') ∧
      GreedyValid .single n data dend'.steps.toList :=
  C03_primitive_reducible L chk .single (lwSymm_single L T) reducible_single st d data n h2 hs hl
    (noNaNRun_of_lwNoNaN lwNoNaN_single h0)

/-- Complete linkage through `primitive_with`. -/
theorem C03_primitive_complete (L : OrderLaws α) (T : LtTrichotomy α) (chk : Bool)
    (st : State α) (d : Dendrogram α) (data : Array α) (n : Nat) (h2 : 2 ≤ n)
    (hs : n < 2147483648) (hl : 2 * data.size = n * (n - 1)) (h0 : InitNoNaN .complete n data) :
    ∃ st' dend' M', primitiveWith chk .complete st d data n = .ok (st', dend', M') ∧
      GreedyValid .complete n data dend'.steps.toList :=
  C03_primitive_reducible L chk .complete (lwSymm_complete L T) reducible_complete st d data n h2 hs
    hl (noNaNRun_of_lwNoNaN lwNoNaN_complete h0)

/-! ## Non-vacuity: the hypotheses are satisfiable (toy exact numbers `Nat`) -/

section Example
attribute [local instance] Toy.natNum

theorem Toy.natTrichotomy : LtTrichotomy Nat := by
  intro a b h1 h2
  change decide (a < b) = false at h1
  change decide (b < a) = false at h2
  simp only [decide_eq_false_iff_not] at h1 h2
  omega

theorem Toy.natComm : CommLaws Nat := ⟨Nat.add_comm, Nat.mul_comm⟩

theorem Toy.natInitNoNaN (m : Method) (n : Nat) (data : Array Nat) : InitNoNaN m n data :=
  fun _ _ _ _ _ => rfl

/-- Over `Nat` nothing is NaN, so `NoNaNRun` holds for every method and input. -/
theorem Toy.natNoNaNRun (m : Method) (n : Nat) (data : Array Nat) : NoNaNRun m n data :=
  fun _ _ _ _ _ _ _ => rfl

/-- Single linkage on the 4-point matrix `[5,1,4, 3,1, 2]` (ties: two entries equal to 1): all
hypotheses of `C03_primitive_single` hold, so the returned steps are greedy-valid. -/
example : ∃ st' dend' M',
    primitiveWith true .single State.new (Dendrogram.new 0) (#[5, 1, 4, 3, 1, 2] : Array Nat) 4
      = .ok (st', dend', M') ∧
    GreedyValid .single 4 (#[5, 1, 4, 3, 1, 2] : Array Nat) dend'.steps.toList :=
  C03_primitive_single Toy.natOrderLaws Toy.natTrichotomy true _ _ _ 4 (by decide) (by decide)
    (by decide) (Toy.natInitNoNaN _ _ _)

/-- What the model returns on that input (`#eval`: steps `(0,2,1,2) (1,3,1,2) (4,5,2,4)`) is indeed
accepted by the specification predicate, and the predicate is not trivially true: a run that does not
start with a closest pair is rejected. -/
example : GreedyValid .single 4 (#[5, 1, 4, 3, 1, 2] : Array Nat)
    [⟨0, 2, 1, 2⟩, ⟨1, 3, 1, 2⟩, ⟨4, 5, 2, 4⟩] := by decide

example : ¬ GreedyValid .single 4 (#[5, 1, 4, 3, 1, 2] : Array Nat)
    [⟨0, 1, 5, 2⟩, ⟨2, 3, 2, 2⟩, ⟨4, 5, 1, 4⟩] := by decide

/-- Centroid (no sort, merge order kept, update symmetric by commutativity) on the same input. -/
example : ∃ st' dend' M',
    primitiveWith false .centroid State.new (Dendrogram.new 0) (#[5, 1, 4, 3, 1, 2] : Array Nat) 4
      = .ok (st', dend', M') ∧
    GreedyValid .centroid 4 (#[5, 1, 4, 3, 1, 2] : Array Nat) dend'.steps.toList :=
  C03_primitive_unsorted Toy.natOrderLaws false .centroid rfl (lwSymm_centroid Toy.natComm) _ _ _ 4
    (by decide) (by decide) (by decide) (Toy.natNoNaNRun _ _ _)

/-- The merge-order theorem for Ward (all hypotheses satisfiable). -/
example := C03_primitive_mergeorder Toy.natOrderLaws true .ward (lwSymm_ward Toy.natOrderLaws Toy.natTrichotomy Toy.natComm)
  State.new (Dendrogram.new 0) (#[5, 1, 4, 3, 1, 2] : Array Nat) 4 (by decide) (by decide)
  (by decide) (Toy.natNoNaNRun _ _ _)

/-- The hypotheses of the two building blocks on a concrete state: the fresh active list on four
indices and the matrix above. -/
example : ∃ a b v, argmin true ({ data := #[5, 1, 4, 3, 1, 2], n := 4 } : Mat Nat) (Active.fresh 4)
      = .ok (some (a, b, v)) ∧ a < b ∧ a ∈ List.range 4 ∧ b ∈ List.range 4 ∧
      ({ data := #[5, 1, 4, 3, 1, 2], n := 4 } : Mat Nat).get true a b = .ok v ∧
      ∀ x ∈ List.range 4, ∀ y ∈ List.range 4, x < y → ∀ w,
        ({ data := #[5, 1, 4, 3, 1, 2], n := 4 } : Mat Nat).get true x y = .ok w →
        Num.lt w v = false :=
  C03_primitive_argmin_min Toy.natOrderLaws true 4 (Active.fresh 4) (List.range 4)
    (Active.rep_fresh 4) (by decide) _ ⟨by decide, by decide, by decide⟩ rfl
    (fun _ _ _ _ _ _ _ => rfl)

end Example

/-! ## EXACT ARITHMETIC: `primitive_with` over a linearly ordered field (appended section)

Scope.  Exact arithmetic ONLY: `K` is a linearly ordered field
(`[Field K] [LinearOrder K] [IsStrictOrderedRing K]`) whose `Num K` instance computes the field
operations and has no NaN (`ExactLaws K`, `Lemmas/FieldInstances.lean`; satisfied by `fieldNum K` and
`fieldNumWith K sq` for every `sq`).  IEEE floats are not a field, so nothing here is a statement
about `f32`/`f64`; the float gap is MEASURED by the oracles (tolerances of the property), not proved.

Entry point: `primitive_with` (model `primitiveWith`), both build modes, every prior state, every
valid matrix `2 ≤ n < 2^31`, `2·len = n(n-1)`, ALL SEVEN methods.  No further hypothesis: all law
hypotheses of the theorems above (`OrderLaws`, `LwSymm`, `NoNaNRun`, reducibility) are discharged.

* `C03_primitive_reduciblePos`  (any number type) `C03_primitive_reducible` with the hypothesis
      `Spec.ReduciblePos α m` — reducibility for POSITIVE cluster sizes only — in place of
      `Spec.Reducible α m`.  Introduced because `Reducible` quantifies over all sizes and was FALSE
      for the UNCLAMPED average and Ward formulas in a field at sizes `0` (`0/0 = 0`); the clamped
      average and the guarded, clamped Ward of the repaired crate are `Reducible` for all sizes in
      every ordered number type (`Spec.reducible_average`, `Spec.reducible_ward`), so the weaker
      hypothesis is no longer forced for them — it is kept as the more general statement; the
      sizes met along a greedy run are positive (`Spec.SizePos`, `Lemmas/ReduciblePos.lean`).
      Proved by composing `C03_primitive_mergeorder` and `C03_primitive_of_monotone`.
* `C03_primitive_exact`  all seven methods over `K`: `primitiveWith` returns normally and the
      returned steps are `Spec.GreedyValid m n data` (centroid/median through
      `C03_primitive_unsorted`, the other five through `C03_primitive_reduciblePos`).
-/

/-- Methods reducible on positive sizes: the merge-order heights never decrease, so the stable sort
is the identity and the returned steps are greedy-valid. -/
theorem C03_primitive_reduciblePos (L : OrderLaws α) (chk : Bool) (m : Method) (hsym : LwSymm α m)
    (hred : ReduciblePos α m)
    (st : State α) (d : Dendrogram α) (data : Array α) (n : Nat) (h2 : 2 ≤ n)
    (hs : n < 2147483648) (hl : 2 * data.size = n * (n - 1)) (hnn : NoNaNRun m n data) :
    ∃ st' dend' M', primitiveWith chk m st d data n = .ok (st', dend', M') ∧
      GreedyValid m n data dend'.steps.toList := by
  refine C03_primitive_of_monotone L chk m hsym st d data n h2 hs hl hnn ?_
  intro st1 dend1 M1 hloop
  obtain ⟨st1', dend1', M1', hloop', -, hvalid, hts, -⟩ :=
    C03_primitive_mergeorder L chk m hsym st d data n h2 hs hl hnn
  rw [hloop] at hloop'
  simp only [Except.ok.injEq, Prod.mk.injEq] at hloop'
  obtain ⟨-, rfl, -⟩ := hloop'
  have h := greedy_heights_mono_pos L hred (mergeOrder m n dend1.steps.toList) (init m n data) 0
    (init_StInv m n data) (init_SizePos m n data) hvalid.2
    (runNoNaN_of_noNaNRun hnn _ [] hvalid.2)
  rw [← hts, List.pairwise_map] at h
  exact h

section Exact
variable {K : Type} [Field K] [LinearOrder K] [IsStrictOrderedRing K] [Num K]

/-- **C03 for `primitive_with` in exact arithmetic, all seven methods.** -/
theorem C03_primitive_exact (E : ExactLaws K) (chk : Bool) (m : Method) (st : State K)
    (d : Dendrogram K) (data : Array K) (n : Nat) (h2 : 2 ≤ n) (hs : n < 2147483648)
    (hl : 2 * data.size = n * (n - 1)) :
    ∃ st' d' M', primitiveWith chk m st d data n = .ok (st', d', M') ∧
      GreedyValid m n data d'.steps.toList := by
  cases hm : m.requiresSorting with
  | true =>
    exact C03_primitive_reduciblePos E.field.orderLaws chk m (E.field.lwSymm m)
      (E.field.reduciblePos m hm) st d data n h2 hs hl (E.noNaNRun m n data)
  | false =>
    exact C03_primitive_unsorted E.field.orderLaws chk m hm (E.field.lwSymm m) st d data n h2 hs hl
      (E.noNaNRun m n data)

end Exact

/-! ### Non-vacuity over `ℚ` -/

section ExactExample

/-- The hypothesis bundle is inhabited by `fieldNum ℚ`; Ward on the matrix `d01=1 d02=9 d12=4`. -/
example : ∃ st' d' M',
    @primitiveWith ℚ (fieldNum ℚ) true .ward State.new (Dendrogram.new 0) #[1, 9, 4] 3
      = .ok (st', d', M') ∧
    @GreedyValid ℚ (fieldNum ℚ) .ward 3 #[1, 9, 4] d'.steps.toList :=
  @C03_primitive_exact ℚ _ _ _ (fieldNum ℚ) (exactLaws_fieldNum ℚ) true .ward _ _ _ 3
    (by decide) (by decide) (by decide)

/-- The same for every method at once (and for `fieldNumWith ℚ sq`, any `sq`). -/
example (sq : ℚ → ℚ) (m : Method) : ∃ st' d' M',
    @primitiveWith ℚ (fieldNumWith ℚ sq) false m State.new (Dendrogram.new 0) #[1, 9, 4] 3
      = .ok (st', d', M') ∧
    @GreedyValid ℚ (fieldNumWith ℚ sq) m 3 #[1, 9, 4] d'.steps.toList :=
  @C03_primitive_exact ℚ _ _ _ (fieldNumWith ℚ sq) (exactLaws_fieldNumWith ℚ sq) false m _ _ _ 3
    (by decide) (by decide) (by decide)

end ExactExample

/-!
## `generic_with` (Müllner's generic algorithm; `linkage` uses it for centroid and median)

Entry point `generic_with` (model `genericWith`, both build modes `chk`, every prior
`LinkageState`/`Dendrogram`), every `2 ≤ n < 2^31`, every `data` with `data.size = n(n-1)/2` whose
(squared, for the methods on squares) entries lie in a user-chosen good set `G`, abstract `α`.
Built on the totality proof `genericWith_eq` (`Lemmas/GenericRun.lean`); new lemma files
`Lemmas/GenericGreedy{LB,Update,Init,Sim,Spec}.lean`.

### Proved
* `C03_generic_pop_min`     (stages 1+2) under the LOWER-BOUND invariant `LB` ("the priority of every
                      live row is `≤` every entry of that row at a live column") an exact top row `a`
                      of the heap (`dis[[a, nearest[a]]] == priority(a)`, the exit test of the repair
                      loop) gives a live pair `a < b = nearest[a]` whose entry is a minimum over ALL
                      live pairs.
* `C03_generic_iter_min`    one iteration of the main loop (repair ; pop ; update ; merge) is total,
                      merges a GLOBALLY closest live pair of the matrix it starts from, and
                      re-establishes the loop invariant `GenSim` = `GenInv` (totality) + `LB` +
                      `PrimSim` (matrix = spec table under merge-order labels).  `LB` is established by
                      the initial scan (`genericInit_lb`), kept by the rescan of the repair loop
                      (`genericRepair_lb`), by `pop`, and by the three ranges of the method-specific
                      update (`genericUpdate_lb`); the matrix part of that update IS `updateRows`
                      of `primitive`, so `C03_primitive_update_spec` is reused.
* `C03_generic_mergeorder`  (stage 3) `genericWith` is a total loop followed by `relabel m` and
                      `sqrtSteps m`, and the raw dendrogram left by the loop, relabelled IN MERGE ORDER,
                      is `Spec.GreedyValid m n data`; its raw heights are the spec's table values and
                      lie in `G`.
* `C03_generic_unsorted`    (stage 4) centroid, median: the call returns normally and the RETURNED
                      steps are `GreedyValid`.  `C03_linkage_centroid_median`: the same through
                      `linkageWith` (the `dispatch` table routes exactly these two methods to generic).
* `C03_generic_of_monotone` any method: the same under the spec-level hypothesis that greedy runs have
                      non-decreasing heights;  `C03_generic_reducible`: that hypothesis from
                      `Spec.Reducible α m`;  `C03_generic_single`, `C03_generic_complete`.

### Hypotheses (all explicit; ✓ = true of IEEE floats)
* `OrderLaws α` ✓;  `BeqLe α`: `a == b → ¬ b < a` ✓ (new; needed because the repair loop exits on `==`).
* `GoodSet G` (members non-NaN, `< max_value`, `v == v`) ✓ for any set of ordinary finite floats;
  `Num.isNaN max_value = false` ✓;  inputs in `G`.
* `UpdClosed G m`: `G` closed under the update formula — a theorem for single/complete, otherwise a
  hypothesis on the chosen `G` (no overflow / NaN produced).
* `Spec.LwSymm α m`: from commutativity of `+`, `×` ✓ for weighted/Ward/centroid/median
  (`lwSymm_centroid`, …); for single/complete from `LtTrichotomy` (false for `±0`); for the clamped
  average (`fix:` commit of the crate) from both (`lwSymm_average`).
* `LBClosed G m` — ONLY for the five methods whose range 1 does not lower priorities (single, complete,
  average, weighted, Ward; `l1Mode m = .fix`): the update of two values `≥ p` is `≥ p` (Ward: given
  also `p ≥` merged distance).  Theorem for single/complete; follows from `Spec.Reducible` for
  average/weighted (`lbClosed_of_reducible`); true in exact arithmetic for average/weighted/Ward but
  NOT under float rounding for weighted (for the clamped average and the guarded, clamped Ward of the
  repaired crate it is a theorem in every ordered number type: `lbClosed_average`, `lbClosed_ward`,
  `Spec.reducible_average`, `Spec.reducible_ward`).  Centroid and median — the `linkage` case — need NO such hypothesis:
  their range 1 lowers the priority itself.
* `Spec.Reducible α m` only for the sorted methods' returned dendrogram (as for `primitive`).
* No `NoNaNRun` hypothesis: it follows from `GoodSet`/`UpdClosed`/good inputs
  (`noNaNRun_of_updClosed`).

### Not proved
* `LBClosed`/`Reducible` for weighted (false under rounding, see above; average and Ward: theorems
  since the two `fix:` commits).
* first-wins tie-breaking (not part of the property).
-/

section Generic
variable {G : α → Prop}

/-- Stages 1+2: under `LB` an exact top row gives a globally minimal pair; every live priority is
`≥` its entry. -/
theorem C03_generic_pop_min {n : Nat} {M : Mat α} (L : OrderLaws α) (hbeq : BeqLe α)
    (gs : GoodSet G) (chk : Bool) (hM : MGood G n M) (live : List Nat) (q : Heap α)
    (nr : Array Nat) (hq : QInv G n live q nr) (hlb : LB chk M live q.prio)
    (h2 : 2 ≤ live.length) (hnd : live.Nodup) {a : Nat} (hpeek : q.peek = some a)
    (hex : Exact chk M q nr a) :
    ∃ b dist, nr[a]? = some b ∧ a < b ∧ a ∈ live ∧ b ∈ live ∧ M.get chk a b = .ok dist ∧ G dist ∧
      (∀ x ∈ live, ∀ y ∈ live, x < y → ∀ w, M.get chk x y = .ok w → Num.lt w dist = false) ∧
      (∀ x ∈ live, ∀ px, q.prio[x]? = some px → Num.lt px dist = false) :=
  generic_pop_min L hbeq gs chk hM live q nr hq hlb h2 hnd hpeek hex

/-- One iteration of the main loop merges a globally closest live pair and keeps the invariant. -/
theorem C03_generic_iter_min (L : OrderLaws α) (hbeq : BeqLe α) (gs : GoodSet G)
    (chk : Bool) (m : Method) (hcl : UpdClosed G m) (hlbc : l1Mode m = .fix → LBClosed G m)
    (hsym : LwSymm α m) (hmax : Num.isNaN (Num.maxValue : α) = false)
    (n : Nat) (data : Array α) (k : Nat) (live : List Nat) (st : State α) (dend : Dendrogram α)
    (M : Mat α) (hk : k + 1 < n) (inv : GenSim G chk m n data k live st dend M) :
    ∃ st' dend' M' a b dist sz, GlobalMinPair chk M live a b dist ∧
      dend' = { dend with steps := dend.steps.push (Step.new a b dist sz) } ∧
      genericIter chk m (st, dend, M) = .ok (st', dend', M') ∧
      GenSim G chk m n data (k + 1) (live.filter (· ≠ a)) st' dend' M' :=
  genericIter_sim L hbeq gs chk m hcl hlbc hsym hmax n data k live st dend M hk inv

/-- Stage 3: the loop of `generic_with`, relabelled in merge order, is a greedy run of the spec. -/
theorem C03_generic_mergeorder (L : OrderLaws α) (hbeq : BeqLe α) (gs : GoodSet G)
    (chk : Bool) (m : Method) (hcl : UpdClosed G m) (hlbc : l1Mode m = .fix → LBClosed G m)
    (hsym : LwSymm α m) (hmax : Num.isNaN (Num.maxValue : α) = false)
    (st : State α) (d : Dendrogram α) (data : Array α) (n : Nat) (h2 : 2 ≤ n)
    (hs : n < 2147483648) (hl : 2 * data.size = n * (n - 1))
    (hin : ∀ i (h : i < (squareData m data).size), G (squareData m data)[i]) :
    ∃ (st1 : State α) (dend1 : Dendrogram α) (M1 : Mat α),
      genericWith chk m st d data n =
        (relabel m st1.set dend1 >>= fun r =>
          pure ({ st1 with set := r.1 }, sqrtSteps m r.2, M1)) ∧
      GreedyValid m n data (mergeOrder m n dend1.steps.toList) ∧
      dend1.steps.toList.map (·.d)
        = rawHeights m (init m n data) (mergeOrder m n dend1.steps.toList) ∧
      (∀ s ∈ dend1.steps.toList, G s.d) := by
  obtain ⟨st1, dend1, M1, hres, hdg, heq⟩ :=
    genericWith_sim L hbeq gs chk m hcl hlbc hsym hmax st d data n h2 hs hl hin
  exact ⟨st1, dend1, M1, heq, hres.valid, hres.hts, hdg⟩

/-- Stage 4, any method: the returned steps are greedy-valid whenever every greedy run of the
SPECIFICATION has non-decreasing raw heights (then the stable sort of `relabel` is the identity). -/
theorem C03_generic_of_monotone (L : OrderLaws α) (hbeq : BeqLe α) (gs : GoodSet G)
    (chk : Bool) (m : Method) (hcl : UpdClosed G m) (hlbc : l1Mode m = .fix → LBClosed G m)
    (hsym : LwSymm α m) (hmax : Num.isNaN (Num.maxValue : α) = false)
    (st : State α) (d : Dendrogram α) (data : Array α) (n : Nat) (h2 : 2 ≤ n)
    (hs : n < 2147483648) (hl : 2 * data.size = n * (n - 1))
    (hin : ∀ i (h : i < (squareData m data).size), G (squareData m data)[i])
    (hmono : ∀ l, GreedyValid m n data l →
      (rawHeights m (init m n data) l).Pairwise (fun a b => Num.lt b a = false)) :
    ∃ st' dend' M', genericWith chk m st d data n = .ok (st', dend', M') ∧
      GreedyValid m n data dend'.steps.toList := by
  obtain ⟨st1, dend1, M1, hres, hdg, heq⟩ :=
    genericWith_sim L hbeq gs chk m hcl hlbc hsym hmax st d data n h2 hs hl hin
  have hpw : dend1.steps.toList.Pairwise (fun s t => Num.lt t.d s.d = false) := by
    have h := hmono _ hres.valid
    rw [← hres.hts, List.pairwise_map] at h
    exact h
  obtain ⟨uf, d', hr, _, hg⟩ := relabel_greedy' hres (fun s hs' => gs.notNaN _ (hdg s hs')) h2
    st1.set (processed_of_pairwise m _ hpw)
  refine ⟨{ st1 with set := uf }, sqrtSteps m d', M1, ?_, hg⟩
  rw [heq, hr]; rfl

/-- Stage 4, centroid and median (no sort; no `LBClosed`, no `Reducible`): the returned steps are
greedy-valid. -/
theorem C03_generic_unsorted (L : OrderLaws α) (hbeq : BeqLe α) (gs : GoodSet G)
    (chk : Bool) (m : Method) (hm : m.requiresSorting = false) (hcl : UpdClosed G m)
    (hsym : LwSymm α m) (hmax : Num.isNaN (Num.maxValue : α) = false)
    (st : State α) (d : Dendrogram α) (data : Array α) (n : Nat) (h2 : 2 ≤ n)
    (hs : n < 2147483648) (hl : 2 * data.size = n * (n - 1))
    (hin : ∀ i (h : i < (squareData m data).size), G (squareData m data)[i]) :
    ∃ st' dend' M', genericWith chk m st d data n = .ok (st', dend', M') ∧
      GreedyValid m n data dend'.steps.toList := by
  have hlbc : l1Mode m = .fix → LBClosed G m := by
    intro h; cases m <;> simp [Method.requiresSorting] at hm <;> simp [l1Mode] at h
  obtain ⟨st1, dend1, M1, hres, hdg, heq⟩ :=
    genericWith_sim L hbeq gs chk m hcl hlbc hsym hmax st d data n h2 hs hl hin
  obtain ⟨uf, d', hr, _, hg⟩ := relabel_greedy' hres (fun s hs' => gs.notNaN _ (hdg s hs')) h2
    st1.set (processed_of_unsorted m _ hm)
  refine ⟨{ st1 with set := uf }, sqrtSteps m d', M1, ?_, hg⟩
  rw [heq, hr]; rfl

/-- `linkage(.., Centroid | Median)`: `linkage_with` routes these two methods (and only these) to
`generic_with`; the returned steps are greedy-valid. -/
theorem C03_linkage_centroid_median (L : OrderLaws α) (hbeq : BeqLe α) (gs : GoodSet G)
    (chk : Bool) (m : Method) (hm : m = .centroid ∨ m = .median) (hcl : UpdClosed G m)
    (hsym : LwSymm α m) (hmax : Num.isNaN (Num.maxValue : α) = false)
    (st : State α) (d : Dendrogram α) (data : Array α) (n : Nat) (h2 : 2 ≤ n)
    (hs : n < 2147483648) (hl : 2 * data.size = n * (n - 1))
    (hin : ∀ i (h : i < (squareData m data).size), G (squareData m data)[i]) :
    dispatch m = .generic ∧
    ∃ st' dend' M', linkageWith chk m st d data n = .ok (st', dend', M') ∧
      GreedyValid m n data dend'.steps.toList := by
  have hd : dispatch m = .generic := by rcases hm with rfl | rfl <;> rfl
  have hr : m.requiresSorting = false := by rcases hm with rfl | rfl <;> rfl
  have hlink : linkageWith chk m st d data n = genericWith chk m st d data n := by
    unfold linkageWith; rw [hd]
  rw [hlink]
  exact ⟨hd, C03_generic_unsorted L hbeq gs chk m hr hcl hsym hmax st d data n h2 hs hl hin⟩

/-- Stage 4, reducible methods: the merge-order heights never decrease, so the stable sort is the
identity and the returned steps are greedy-valid. -/
theorem C03_generic_reducible (L : OrderLaws α) (hbeq : BeqLe α) (gs : GoodSet G)
    (chk : Bool) (m : Method) (hcl : UpdClosed G m) (hlbc : l1Mode m = .fix → LBClosed G m)
    (hsym : LwSymm α m) (hred : Reducible α m) (hmax : Num.isNaN (Num.maxValue : α) = false)
    (st : State α) (d : Dendrogram α) (data : Array α) (n : Nat) (h2 : 2 ≤ n)
    (hs : n < 2147483648) (hl : 2 * data.size = n * (n - 1))
    (hin : ∀ i (h : i < (squareData m data).size), G (squareData m data)[i]) :
    ∃ st' dend' M', genericWith chk m st d data n = .ok (st', dend', M') ∧
      GreedyValid m n data dend'.steps.toList := by
  have hnn : NoNaNRun m n data :=
    noNaNRun_of_updClosed gs hcl (init_TableGood m data n h2 hs hl hin)
  apply C03_generic_of_monotone L hbeq gs chk m hcl hlbc hsym hmax st d data n h2 hs hl hin
  intro l hl'
  exact greedy_heights_mono L hred l (init m n data) 0 (init_StInv m n data) hl'.2
    (runNoNaN_of_noNaNRun hnn _ [] hl'.2)

/-- Reducible methods that do not read the merged distance (single, complete, average, weighted):
`Reducible` alone suffices (`LBClosed` follows). -/
theorem C03_generic_reducible_noDist (L : OrderLaws α) (hbeq : BeqLe α) (gs : GoodSet G)
    (chk : Bool) (m : Method) (hnd : usesDist m = false) (hcl : UpdClosed G m)
    (hsym : LwSymm α m) (hred : Reducible α m) (hmax : Num.isNaN (Num.maxValue : α) = false)
    (st : State α) (d : Dendrogram α) (data : Array α) (n : Nat) (h2 : 2 ≤ n)
    (hs : n < 2147483648) (hl : 2 * data.size = n * (n - 1))
    (hin : ∀ i (h : i < (squareData m data).size), G (squareData m data)[i]) :
    ∃ st' dend' M', genericWith chk m st d data n = .ok (st', dend', M') ∧
      GreedyValid m n data dend'.steps.toList :=
  C03_generic_reducible L hbeq gs chk m hcl (fun _ => lbClosed_of_reducible gs hnd hred) hsym hred
    hmax st d data n h2 hs hl hin

/-- Single linkage through `generic_with`. -/
theorem C03_generic_single (L : OrderLaws α) (T : LtTrichotomy α) (hbeq : BeqLe α)
    (gs : GoodSet G) (chk : Bool) (hmax : Num.isNaN (Num.maxValue : α) = false)
    (st : State α) (d : Dendrogram α) (data : Array α) (n : Nat) (h2 : 2 ≤ n)
    (hs : n < 2147483648) (hl : 2 * data.size = n * (n - 1))
    (hin : ∀ i (h : i < (squareData .single data).size), G (squareData .single data)[i]) :
    ∃ st' dend' M', genericWith chk .single st d data n = .ok (st', dend', M') ∧
      GreedyValid .single n data dend'.steps.toList :=
  C03_generic_reducible L hbeq gs chk .single (updClosed_single G) (fun _ => lbClosed_single G)
    (lwSymm_single L T) reducible_single hmax st d data n h2 hs hl hin

/-- Complete linkage through `generic_with`. -/
theorem C03_generic_complete (L : OrderLaws α) (T : LtTrichotomy α) (hbeq : BeqLe α)
    (gs : GoodSet G) (chk : Bool) (hmax : Num.isNaN (Num.maxValue : α) = false)
    (st : State α) (d : Dendrogram α) (data : Array α) (n : Nat) (h2 : 2 ≤ n)
    (hs : n < 2147483648) (hl : 2 * data.size = n * (n - 1))
    (hin : ∀ i (h : i < (squareData .complete data).size), G (squareData .complete data)[i]) :
    ∃ st' dend' M', genericWith chk .complete st d data n = .ok (st', dend', M') ∧
      GreedyValid .complete n data dend'.steps.toList :=
  C03_generic_reducible L hbeq gs chk .complete (updClosed_complete G)
    (fun _ => lbClosed_complete G) (lwSymm_complete L T) reducible_complete hmax st d data n h2 hs
    hl hin

end Generic

/-! ### Non-vacuity for `generic_with` (toy exact numbers `Nat`, `max_value = 10^6`) -/

section GenericExample
attribute [local instance] Toy.natNum

theorem Toy.natBeqLe : BeqLe Nat := by
  intro a b h
  change decide (a = b) = true at h
  change decide (b < a) = false
  simp only [decide_eq_true_eq] at h
  simp only [decide_eq_false_iff_not]
  omega

/-- Centroid through `linkage_with` (routed to `generic_with`) on the 4-point matrix
`[5,1,4, 3,1, 2]` (entries are squared first; ties): every hypothesis of
`C03_linkage_centroid_median` holds, so the returned steps are greedy-valid. -/
example : dispatch .centroid = .generic ∧ ∃ st' dend' M',
    linkageWith true .centroid State.new (Dendrogram.new 0) (#[5, 1, 4, 3, 1, 2] : Array Nat) 4
      = .ok (st', dend', M') ∧
    GreedyValid .centroid 4 (#[5, 1, 4, 3, 1, 2] : Array Nat) dend'.steps.toList :=
  C03_linkage_centroid_median Toy.natOrderLaws Toy.natBeqLe GenericExample.goodSet_G true .centroid
    (Or.inl rfl) GenericExample.closed_centroid (lwSymm_centroid Toy.natComm) GenericExample.hmax
    _ _ _ 4 (by decide) (by decide) (by decide)
    (squareData_good .centroid _ (by simp [GenericExample.G, Method.onSquares, Num.mul]))

/-- Median through `generic_with`. -/
example : ∃ st' dend' M',
    genericWith false .median State.new (Dendrogram.new 0) (#[5, 1, 4, 3, 1, 2] : Array Nat) 4
      = .ok (st', dend', M') ∧
    GreedyValid .median 4 (#[5, 1, 4, 3, 1, 2] : Array Nat) dend'.steps.toList :=
  C03_generic_unsorted Toy.natOrderLaws Toy.natBeqLe GenericExample.goodSet_G false .median rfl
    GenericExample.closed_median (lwSymm_median Toy.natComm) GenericExample.hmax
    _ _ _ 4 (by decide) (by decide) (by decide)
    (squareData_good .median _ (by simp [GenericExample.G, Method.onSquares, Num.mul]))

/-- Single linkage through `generic_with` (sorted method: `LBClosed`, `Reducible` are theorems). -/
example : ∃ st' dend' M',
    genericWith true .single State.new (Dendrogram.new 0) (#[5, 1, 4, 3, 1, 2] : Array Nat) 4
      = .ok (st', dend', M') ∧
    GreedyValid .single 4 (#[5, 1, 4, 3, 1, 2] : Array Nat) dend'.steps.toList :=
  C03_generic_single Toy.natOrderLaws Toy.natTrichotomy Toy.natBeqLe GenericExample.goodSet_G true
    GenericExample.hmax _ _ _ 4 (by decide) (by decide) (by decide)
    (squareData_good .single _ (by simp [GenericExample.G, Method.onSquares]))

/-- The merge-order theorem for average linkage: `LBClosed` is satisfiable (the clamped average of two
values `≥ p` is `≥ p` in every ordered number type, `lbClosed_average`). -/
theorem Toy.natLBClosed_average : LBClosed GenericExample.G .average :=
  lbClosed_average Toy.natOrderLaws GenericExample.goodSet_G

example := C03_generic_mergeorder Toy.natOrderLaws Toy.natBeqLe GenericExample.goodSet_G true
  .average GenericExample.closed_average (fun _ => Toy.natLBClosed_average)
  (lwSymm_average Toy.natOrderLaws Toy.natTrichotomy Toy.natComm) GenericExample.hmax State.new (Dendrogram.new 0)
  (#[5, 1, 4, 3, 1, 2] : Array Nat) 4 (by decide) (by decide) (by decide)
  (squareData_good .average _ (by simp [GenericExample.G, Method.onSquares]))

end GenericExample


end Kodama
