/-
C10 (tie to the source) — fingerprints of the hand-modelled functions this property's theorems are about.

The model of these functions is written by hand and tied to the crate by the bit-exact correspondence
run, which is bounded by the sizes it generates.  `Generated/Bodies.lean` is re-emitted from /repo on
every run with a fingerprint of each function's NORMALISED body (comments, attributes, cfg(test) items
and whitespace removed; parameters and local bindings alpha-renamed; tools/extract_bodies.py); each
theorem below pins the fingerprint of the text the model was written against.  A theorem that no longer
checks names the function that was edited: the model may no longer describe it (for instance on sizes the
correspondence run does not reach), and `check` searches for a failing input.  Written by
tools/mk_source_snapshot.py — by hand, after the model has been brought up to date, never by a check.
-/
import Kodama.Generated.Bodies
namespace Kodama

theorem C10_source_queue_LinkageHeap_is_empty : Gen.bodyHash "queue.rs::LinkageHeap::is_empty" = some 541810837262901355 := by decide
theorem C10_source_queue_LinkageHeap_len : Gen.bodyHash "queue.rs::LinkageHeap::len" = some 356601399460223757 := by decide
theorem C10_source_queue_LinkageHeap_pop : Gen.bodyHash "queue.rs::LinkageHeap::pop" = some 581318552547960198 := by decide
theorem C10_source_queue_LinkageHeap_peek : Gen.bodyHash "queue.rs::LinkageHeap::peek" = some 14713158983686933 := by decide
theorem C10_source_queue_LinkageHeap_heapify : Gen.bodyHash "queue.rs::LinkageHeap::heapify" = some 626637675946396237 := by decide
theorem C10_source_queue_LinkageHeap_priority : Gen.bodyHash "queue.rs::LinkageHeap::priority" = some 1022848217240348545 := by decide
theorem C10_source_queue_LinkageHeap_set_priority : Gen.bodyHash "queue.rs::LinkageHeap::set_priority" = some 396773740064790583 := by decide
theorem C10_source_queue_LinkageHeap_sift_up : Gen.bodyHash "queue.rs::LinkageHeap::sift_up" = some 405030374798999656 := by decide
theorem C10_source_queue_LinkageHeap_sift_down : Gen.bodyHash "queue.rs::LinkageHeap::sift_down" = some 480213012234795859 := by decide
theorem C10_source_queue_LinkageHeap_swap : Gen.bodyHash "queue.rs::LinkageHeap::swap" = some 546835196994282615 := by decide
theorem C10_source_queue_LinkageHeap_parent : Gen.bodyHash "queue.rs::LinkageHeap::parent" = some 414042300786923807 := by decide
theorem C10_source_queue_LinkageHeap_children : Gen.bodyHash "queue.rs::LinkageHeap::children" = some 140235334618584006 := by decide
theorem C10_source_generic_generic_with : Gen.bodyHash "generic.rs::generic_with" = some 666595537043039253 := by decide
theorem C10_source_generic_generic : Gen.bodyHash "generic.rs::generic" = some 580816253015378521 := by decide

end Kodama
