/-
C01 for WARD linkage through `nnchain_with` / `linkage_with`, for EVERY ordered number type —
the formal counterpart of the SECOND `fix:` commit of the crate.

The defect.  `nnchain_with` is only correct for REDUCIBLE updates (`d(x, a∪b) ≥ min(d(x,a), d(x,b))`
whenever `d(a,b) ≤ min(d(x,a), d(x,b))`).  The original `method::ward` computed
`((sx+sa)·a + (sx+sb)·b − sx·c)/(sa+sb+sx)`; under floating-point rounding this can come out BELOW both
`a` and `b` although `c ≤ min(a,b)`, a cluster is then pushed on the chain twice and a dead cluster is
merged: the crate returned an INVALID dendrogram (a concrete failing run of the real crate exists:
n = 32, f64, all entries 1.3087321063503623 except three 1–2 ulps off; the last step returned by
`linkage(Method::Ward)` is `(61, 61, size 60)`).  On the model side this was the hypothesis
`ChainReducible α .ward` of `C01_nnchain` / `C12_nnchain_total` / `C14_nnchain`
(`Lemmas/ChainIter.lean`), which was FALSE for IEEE floats (the law sampler `kodama-laws` found 1 906
violations of `ChainReducible.ge[ward]` in 4.1 million sampled updates) and provable in exact
arithmetic only.

The fix.  `method::ward` now clamps the quotient from below by the smaller argument WHENEVER the
merged distance is not above it
(`least := if a < b then a else b; *b = if !(least < c) && value < least then least else value`,
`Kodama/Generated/Method.lean`, regenerated from `src/method.rs`).  Outside the guard the function is
unchanged; in exact arithmetic the clamp is a no-op for all arguments with a positive size
(`FieldLaws.ward_eq_formula`, `Lemmas/WardExact.lean`).  For the clamped formula the `ge` clause of
`ChainReducible α .ward` follows from `OrderLaws α` ALONE (`Gen.ward_not_lt`, `Lemmas/WardClamp.lean`;
`chainReducible_ward`, `Lemmas/ChainIter.lean`): from `d(a,b) ≤ t ≤ d(x,a), d(x,b)` the guard is true,
and then the result is `least`, or a quotient not below `least`.  No field law, no exact arithmetic,
no assumption on how `+ − × /` round.

Proved here (by instantiating `C01_nnchain` / `C01_linkage`), for every valid matrix
(2 ≤ n < 2^31, 2·len = n(n−1)), both build modes, every prior state:

* `C01_nnchain_ward`  `nnchainWith chk .ward …` returning `(st', d', M')` implies
                      `d'.obs = n ∧ WellFormed n d'.steps`;
* `C01_linkage_ward`  the same through `linkageWith chk .ward` (routed to nnchain by the generated
                      dispatch table).
Ward works on the SQUARED entries (`squareData`, the `x·x` pass at the start of `nnchain_with`) and
takes a final `sqrt` of every height; well-formedness does not depend on the heights
(`wellFormed_sqrtSteps`), so no hypothesis on `sqrt` is needed here.

Hypotheses (explicit; all hold of IEEE f32/f64 as stated):
* `OrderLaws α`   `<` is a strict weak order on the non-NaN values (IEEE `<`: NaN compares false);
* `hsq`           no SQUARED input entry is NaN: `∀ i, ¬ isNaN (data[i] · data[i])` (for floats: no NaN
                  in the input; an infinite or overflowing square is `+∞`, not NaN);
* `WardNoNaN α`   the `nan` clause of `ChainReducible α .ward`: the update of non-NaN values with
                  `d(a,b) ≤ d(x,a), d(x,b)` and positive sizes is not NaN.  For floats: no overflow of
                  the numerator to `∞ − ∞`; it holds on finite inputs whose size-weighted sums stay
                  finite (sampled: `ChainReducible.nan[ward,dom=moderate]`).  Sufficient: the QUOTIENT
                  is not NaN (`wardNoNaN_of_value`) — guard and clamp never create a NaN.
                  It is a hypothesis, not proved for floats.

NOT proved: `WardNoNaN` for `Float`/`Float32`; anything about the VALUES of the heights on floats
(Ward's numerator cancels, no relative rounding bound is claimed).

Also here (`UnclampedWardDefect`): a model-level witness of the DEFECT.  On the toy number type with a
4-bit significand rounding toward zero (`UnclampedDefect.truncNum` of `Props/C01Average.lean`, which
satisfies `OrderLaws`) the unclamped Ward quotient of `a = b = c = 7` with sizes `1, 1, 1` is `6` —
strictly below BOTH arguments although `c ≤ min(a,b)` — while the clamped `Gen.ward` returns `7`.
-/
import Kodama.Props.C01
import Kodama.Props.C01Average
namespace Kodama
open Spec
variable {α : Type} [Num α]

/-- Ward squares its input: the `NoNaNData` hypothesis of the nnchain theorems, in elementary terms. -/
theorem noNaNData_squareData_ward {data : Array α}
    (hsq : ∀ (i : Nat) (h : i < data.size), Num.isNaN (Num.mul data[i] data[i]) = false) :
    NoNaNData (squareData Method.ward data) := by
  intro i h
  have hi : i < data.size := by simpa [squareData, Method.onSquares] using h
  simpa [squareData, Method.onSquares] using hsq i hi

/-- **C01, Ward linkage through `nnchain_with`, any ordered number type.**  No reducibility
hypothesis: the guarded, clamped update is reducible by `OrderLaws` alone. -/
theorem C01_nnchain_ward (L : OrderLaws α) (hn : WardNoNaN α) (chk : Bool)
    (st st' : State α) (d d' : Dendrogram α) (data : Array α) (n : Nat) (M' : Mat α)
    (h2 : 2 ≤ n) (hs : n < 2147483648) (hl : 2 * data.size = n * (n - 1))
    (hsq : ∀ (i : Nat) (h : i < data.size), Num.isNaN (Num.mul data[i] data[i]) = false)
    (h : nnchainWith chk .ward st d data n = .ok (st', d', M')) :
    d'.obs = n ∧ WellFormed n d'.steps.toList :=
  C01_nnchain L chk .ward (chainReducible_ward L hn) st st' d d' data n M' h2 hs hl
    (noNaNData_squareData_ward hsq) h

/-- **C01, Ward linkage through `linkage_with`** (dispatched to `nnchain_with`). -/
theorem C01_linkage_ward (L : OrderLaws α) (hn : WardNoNaN α) (chk : Bool)
    (st st' : State α) (d d' : Dendrogram α) (data : Array α) (n : Nat) (M' : Mat α)
    (h2 : 2 ≤ n) (hs : n < 2147483648) (hl : 2 * data.size = n * (n - 1))
    (hsq : ∀ (i : Nat) (h : i < data.size), Num.isNaN (Num.mul data[i] data[i]) = false)
    (h : linkageWith chk .ward st d data n = .ok (st', d', M')) :
    d'.obs = n ∧ WellFormed n d'.steps.toList :=
  C01_linkage L chk .ward
    (by
      intro mc hmc
      simp only [Method.intoMethodChain, Option.some.injEq] at hmc
      rw [← hmc]; exact chainReducible_ward L hn)
    rfl st st' d d' data n M' h2 hs hl
    (fun _ => noNaNData_squareData_ward hsq)
    h

/-! ### Non-vacuity (toy exact number type `Toy.natNum`, a valid 4-point matrix) -/

section NonVacuity
attribute [local instance] Toy.natNum

/-- The hypotheses are jointly satisfiable. -/
example : OrderLaws Nat ∧ WardNoNaN Nat ∧
    (∀ (i : Nat) (h : i < (#[5, 2, 9, 7, 4, 1] : Array Nat).size),
      Num.isNaN (Num.mul (#[5, 2, 9, 7, 4, 1] : Array Nat)[i] (#[5, 2, 9, 7, 4, 1] : Array Nat)[i])
        = false) :=
  ⟨Toy.natOrderLaws, fun _ _ _ _ _ _ _ _ _ _ _ _ _ _ _ _ => rfl, fun _ _ => rfl⟩

example (st' : State Nat) (d' : Dendrogram Nat) (M' : Mat Nat)
    (h : nnchainWith true .ward State.new (Dendrogram.new 4)
      (#[5, 2, 9, 7, 4, 1] : Array Nat) 4 = .ok (st', d', M')) :
    d'.obs = 4 ∧ WellFormed 4 d'.steps.toList :=
  C01_nnchain_ward Toy.natOrderLaws (fun _ _ _ _ _ _ _ _ _ _ _ _ _ _ _ _ => rfl) true _ st' _ d'
    _ 4 M' (by decide) (by decide) (by decide) (fun _ _ => rfl) h

end NonVacuity

/-! ### The defect, at the level of the model

`UnclampedDefect.truncNum` (`Props/C01Average.lean`): natural numbers with a 4-bit significand, every
arithmetic result rounded TOWARD ZERO.  The order is the usual one, so `OrderLaws` holds; what fails is
the algebra — exactly the situation of IEEE floats. -/

namespace UnclampedWardDefect
open UnclampedDefect

attribute [local instance] truncNum

/-- **The unclamped formula is not reducible under rounding.**  `(1+1)·7 + (1+1)·7 = 28`,
`28 − 1·7 = 21` rounds to `20`, `20 / 3 = 6`: the Ward "distance" from `a = b = 7` with merged
distance `c = 7 ≤ min(a, b)` is `6`, strictly below both arguments. -/
theorem unclamped_value_below_both :
    Gen.wardValue (7 : Nat) 7 7 1 1 1 = 6 ∧
      Num.lt (Gen.wardValue (7 : Nat) 7 7 1 1 1) (7 : Nat) = true := by decide

/-- The guarded, clamped `method::ward` returns `7` on the same input … -/
theorem clamped_ward_on_witness : Gen.ward (7 : Nat) 7 7 1 1 1 = 7 := by decide

/-- … leaves the quotient alone OUTSIDE the guard (`c = 9 > min(a,b)`: the function is the
unrepaired formula there) … -/
theorem clamped_ward_outside_guard :
    Gen.ward (7 : Nat) 7 9 1 1 1 = Gen.wardValue (7 : Nat) 7 9 1 1 1 ∧
      Num.lt (Gen.ward (7 : Nat) 7 9 1 1 1) (7 : Nat) = true := by decide

/-- … and is reducible on this number type altogether (as on every ordered number type). -/
example : ChainReducible Nat .ward :=
  chainReducible_ward truncNum_orderLaws (fun _ _ _ _ _ _ _ _ _ _ _ _ _ _ _ _ => rfl)

/-- Hence no theorem "the unclamped quotient is `≥` a common lower bound `t ≥ c` of its arguments"
can follow from `OrderLaws` (plus absence of NaN): `t = 7` is such a bound and not one of the
quotient. -/
theorem unclamped_not_reducible :
    ¬ ∀ (a b c t : Nat) (sa sb sx : Nat), 0 < sa → 0 < sb → 0 < sx → Num.lt t c = false →
        Num.lt a t = false → Num.lt b t = false →
        Num.lt (Gen.wardValue a b c sa sb sx) t = false := by
  intro h
  have := h 7 7 7 7 1 1 1 (by decide) (by decide) (by decide) (by decide) (by decide) (by decide)
  revert this; decide

end UnclampedWardDefect

end Kodama
