/-
C02 / C03 — syntactic tie for the hand-written loops.

The three matrix-updating algorithms repeat the same three-range update loop 7 × 3 (primitive.rs),
5 × 3 (chain.rs) and 7 × 3 (generic.rs) times, written out by hand; the model has ONE `updateRows`
(plus `genericL1/L2/L3` with the flags `l1Mode`, `tracksPriorities`).  The correspondence run only
samples these loops.  Here every `for … in state.active.range(..)` loop of the four algorithm
files is re-read from the source on every run (`Generated/Loops.lean`: range expression, `.skip(1)`,
normalised statements) and proved EQUAL to the table generated from the model's own description:

* `C02_loops_shape`  the 63 loops of the source are exactly: for each method, the three ranges
  `(..a | a..b skip 1 | b.. skip 1)` with index pairs `([x,a],[x,b]) ([a,x],[x,b]) ([a,x],[b,x])`, the
  formula `method::<same name>` with the arguments the model passes (`size_a, size_b` / `dist` /
  `state.sizes[x]`), the generic bookkeeping statements selected by the MODEL's `l1Mode` and
  `tracksPriorities`, and the six search loops (nnchain restart scan and chain growth, generic repair
  scan, the two mst scans) in the form the model transcribes.

So an index mix-up, a wrong formula, a dropped `.skip(1)` or a changed priority update in ONE range
of ONE method in ONE file breaks this theorem at build time (in addition to the sampled
correspondence).  Trusted: the translator's loop reader (`tools/extract_more.py: gen_loops`).
-/
import Kodama.Generated.Loops
import Kodama.Model.Generic
import Kodama.Model.Chain
namespace Kodama

namespace LoopSpec

def lname : Method → String
  | .single => "single" | .complete => "complete" | .average => "average" | .weighted => "weighted"
  | .ward => "ward" | .centroid => "centroid" | .median => "median"

/-- Extra arguments of the update call, as the model's `updFn` uses them. -/
def extraArgs : Method → String
  | .average => ", size_a, size_b"
  | .ward => ", dist, size_a, size_b, state.sizes[x]"
  | .centroid => ", dist, size_a, size_b"
  | .median => ", dist"
  | _ => ""

def upd (m : Method) (i1 i2 : String) : String :=
  "method::" ++ lname m ++ "(dis[[" ++ i1 ++ "]], &mut dis[[" ++ i2 ++ "]]" ++ extraArgs m ++ ")"

def fixStr : String := "if state.nearest[x] == a { state.nearest[x] = ab; }"
def lowerStr : String :=
  "if &dis[[x, b]] < state.queue.priority(x) { state.queue.set_priority(x, dis[[x, b]]); state.nearest[x] = ab; } else if state.nearest[x] == a { state.nearest[x] = ab; }"
def l2Str : String :=
  "if &dis[[x, ab]] < state.queue.priority(x) { state.queue.set_priority(x, dis[[x, ab]]); state.nearest[x] = ab; }"
def l3Str : String :=
  "if dis[[ab, x]] < min { state.queue.set_priority(b, dis[[ab, x]]); state.nearest[b] = x; min = dis[[ab, x]]; }"

abbrev Row := String × String × String × Bool × List String

/-- The three update loops of method `m` in `file`; `generic` adds the bookkeeping the model's flags select. -/
def rows (file : String) (generic : Bool) (m : Method) : List Row :=
  let b1 := if generic then (match l1Mode m with | .fix => [fixStr] | .lower => [lowerStr]) else []
  let b2 := if generic && tracksPriorities m then [l2Str] else []
  let b3 := if generic && tracksPriorities m then [l3Str] else []
  [ (file, lname m, "..a", false, upd m "x, a" "x, b" :: b1),
    (file, lname m, "a..b", true, upd m "a, x" "x, b" :: b2),
    (file, lname m, "b..", true, upd m "a, x" "b, x" :: b3) ]

def expected : List Row :=
  (Method.all.map (rows "src/primitive.rs" false)).flatten ++
  [ ("src/chain.rs", "nnchain_with", "b..", true, ["if dis[[a, x]] < min { min = dis[[a, x]]; b = x; }"]),
    ("src/chain.rs", "nnchain_with", "..b", false, ["if dis[[x, b]] < min { min = dis[[x, b]]; a = x; }"]),
    ("src/chain.rs", "nnchain_with", "b..", true, ["if dis[[b, x]] < min { min = dis[[b, x]]; a = x; }"]) ] ++
  ((MethodChain.all.map MethodChain.intoMethod).map (rows "src/chain.rs" false)).flatten ++
  [ ("src/generic.rs", "generic_with", "a..", true,
      ["if dis[[a, x]] < min { min = dis[[a, x]]; state.nearest[a] = x; }"]) ] ++
  (Method.all.map (rows "src/generic.rs" true)).flatten ++
  [ ("src/spanning.rs", "mst_with", "..cluster", false,
      ["let slot = &mut state.min_dists[x]", "method::single(dis[[x, cluster]], slot)",
       "if *slot < min_dist { min_obs = x; min_dist = *slot; }"]),
    ("src/spanning.rs", "mst_with", "cluster..", false,
      ["let slot = &mut state.min_dists[x]", "method::single(dis[[cluster, x]], slot)",
       "if *slot < min_dist { min_obs = x; min_dist = *slot; }"]) ]

end LoopSpec

set_option maxRecDepth 100000 in
theorem C02_loops_shape : Gen.loops = LoopSpec.expected := by decide +kernel

theorem C02_loops_count : Gen.loops.length = 63 := by decide

end Kodama
