/-
C12 for `generic_with` under a RUN-DEPENDENT value hypothesis (no closure of the good set under the
Lance–Williams update; see the header of `Props/C03GenericRun.lean` for the motivation).

Two formulations of "the values that actually occur stay good":

(B) `Spec.RunGood G m n data` (`Lemmas/SpecRunGood.lean`) — SPECIFICATION level: every table value of
    every greedy-valid partial run of the label-based spec lies in `G`.  Needs the simulation, hence
    the hypotheses of the C03 theorems (`BeqLe`, `LwSymm`, `LBClosed` for the five sorted methods) —
    all theorems in exact arithmetic.
(A) `GenericRunGood G chk m n data` (`Lemmas/GenericRun.lean`) — MODEL level: the inputs are good and,
    in every state REACHED by the main loop (iterating the loop body `genericIter` from the start
    state `genericStart`), the values that the update of the picked pair writes are good.  Needs
    only `OrderLaws`, `GoodSet`, `max_value` not NaN — exactly the hypotheses of the closure-based
    `C12_generic_total/_ok` minus `UpdClosed`, which implies it (`genericRunGood_of_updClosed`): the
    closure-based theorems are corollaries (see the `example`s).

* `C12_generic_run_total`, `C12_generic_run_ok`              under (B)
* `C12_generic_run_model_total`, `C12_generic_run_model_ok`  under (A)
* `C12_generic_run_ok_exact`     exact arithmetic, all seven methods: `RunGood (· < max_value)` alone
* `C12_linkage_run_ok`, `C12_linkage_run_ok_exact`   centroid / median through `linkageWith`
* non-vacuity: Ward / centroid / median on NON-constant rational matrices.

"Total" = returns normally or stops in the sort's NaN panic: no index out of bounds, failed (debug)
assertion, `unwrap` on `None`, usize overflow or exhausted fuel.  "ok" = returns normally.
-/
import Kodama.Props.C12
import Kodama.Props.C03GenericRun
namespace Kodama
open Spec

section Run
variable {α : Type} [Num α] {G : α → Prop}

/-- `generic_with` is total under the specification-level run-dependent hypothesis. -/
theorem C12_generic_run_total (L : OrderLaws α) (hbeq : BeqLe α) (gs : GoodSet G) (chk : Bool)
    (m : Method) (hlbc : l1Mode m = .fix → LBClosed G m) (hsym : LwSymm α m)
    (hmax : Num.isNaN (Num.maxValue : α) = false)
    (st : State α) (d : Dendrogram α) (data : Array α) (n : Nat) (h2 : 2 ≤ n)
    (hs : n < 2147483648) (hl : 2 * data.size = n * (n - 1))
    (hrun : RunGood G m n data) :
    (∃ r, genericWith chk m st d data n = .ok r) ∨
      genericWith chk m st d data n = .error .nanInSort := by
  obtain ⟨st1, dend1, M1, hres, _, heq⟩ :=
    genericWith_sim_run L hbeq gs chk m hlbc hsym hmax st d data n h2 hs hl hrun
  rw [heq]
  rcases relabel_ok_or_nan m st1.set dend1 n h2 hres.res.obs hres.res.raw with ⟨r, hr⟩ | hr
  · left; exact ⟨_, by rw [hr]; rfl⟩
  · right; rw [hr]; rfl

/-- … and it in fact returns normally (every recorded height is a table value, hence not NaN). -/
theorem C12_generic_run_ok (L : OrderLaws α) (hbeq : BeqLe α) (gs : GoodSet G) (chk : Bool)
    (m : Method) (hlbc : l1Mode m = .fix → LBClosed G m) (hsym : LwSymm α m)
    (hmax : Num.isNaN (Num.maxValue : α) = false)
    (st : State α) (d : Dendrogram α) (data : Array α) (n : Nat) (h2 : 2 ≤ n)
    (hs : n < 2147483648) (hl : 2 * data.size = n * (n - 1))
    (hrun : RunGood G m n data) :
    ∃ r, genericWith chk m st d data n = .ok r := by
  obtain ⟨st1, dend1, M1, hres, hdg, heq⟩ :=
    genericWith_sim_run L hbeq gs chk m hlbc hsym hmax st d data n h2 hs hl hrun
  rw [heq]
  obtain ⟨r, hr⟩ := relabel_total m st1.set dend1 n h2 hres.res.obs hres.res.raw
    (Or.inr (Or.inr (fun s hs' => gs.notNaN _ (hdg s hs'))))
  exact ⟨_, by rw [hr]; rfl⟩

/-- `generic_with` is total under the model-level run-dependent hypothesis. -/
theorem C12_generic_run_model_total (L : OrderLaws α) (gs : GoodSet G) (chk : Bool)
    (m : Method) (hmax : Num.isNaN (Num.maxValue : α) = false)
    (st : State α) (d : Dendrogram α) (data : Array α) (n : Nat) (h2 : 2 ≤ n)
    (hs : n < 2147483648) (hl : 2 * data.size = n * (n - 1))
    (hrun : GenericRunGood G chk m n data) :
    (∃ r, genericWith chk m st d data n = .ok r) ∨
      genericWith chk m st d data n = .error .nanInSort := by
  obtain ⟨st1, dend1, M1, hres, _, heq⟩ :=
    genericWith_eq_run L gs chk m hmax st d data n h2 hs hl hrun
  rw [heq]
  rcases relabel_ok_or_nan m st1.set dend1 n h2 hres.obs hres.raw with ⟨r, hr⟩ | hr
  · left; exact ⟨_, by rw [hr]; rfl⟩
  · right; rw [hr]; rfl

theorem C12_generic_run_model_ok (L : OrderLaws α) (gs : GoodSet G) (chk : Bool)
    (m : Method) (hmax : Num.isNaN (Num.maxValue : α) = false)
    (st : State α) (d : Dendrogram α) (data : Array α) (n : Nat) (h2 : 2 ≤ n)
    (hs : n < 2147483648) (hl : 2 * data.size = n * (n - 1))
    (hrun : GenericRunGood G chk m n data) :
    ∃ r, genericWith chk m st d data n = .ok r := by
  obtain ⟨st1, dend1, M1, hres, hdg, heq⟩ :=
    genericWith_eq_run L gs chk m hmax st d data n h2 hs hl hrun
  rw [heq]
  obtain ⟨r, hr⟩ := relabel_total m st1.set dend1 n h2 hres.obs hres.raw
    (Or.inr (Or.inr (fun s hs' => gs.notNaN _ (hdg s hs'))))
  exact ⟨_, by rw [hr]; rfl⟩

/-- The closure-based `C12_generic_total` is a corollary. -/
example (L : OrderLaws α) (gs : GoodSet G) (chk : Bool)
    (m : Method) (hcl : UpdClosed G m) (hmax : Num.isNaN (Num.maxValue : α) = false)
    (st : State α) (d : Dendrogram α) (data : Array α) (n : Nat) (h2 : 2 ≤ n)
    (hs : n < 2147483648) (hl : 2 * data.size = n * (n - 1))
    (hin : ∀ i (h : i < (squareData m data).size), G (squareData m data)[i]) :
    (∃ r, genericWith chk m st d data n = .ok r) ∨
      genericWith chk m st d data n = .error .nanInSort :=
  C12_generic_run_model_total L gs chk m hmax st d data n h2 hs hl
    (genericRunGood_of_updClosed L gs chk m hcl hmax data n h2 hs hl hin)

/-- The closure-based `C12_generic_ok` is a corollary. -/
example (L : OrderLaws α) (gs : GoodSet G) (chk : Bool)
    (m : Method) (hcl : UpdClosed G m) (hmax : Num.isNaN (Num.maxValue : α) = false)
    (st : State α) (d : Dendrogram α) (data : Array α) (n : Nat) (h2 : 2 ≤ n)
    (hs : n < 2147483648) (hl : 2 * data.size = n * (n - 1))
    (hin : ∀ i (h : i < (squareData m data).size), G (squareData m data)[i]) :
    ∃ r, genericWith chk m st d data n = .ok r :=
  C12_generic_run_model_ok L gs chk m hmax st d data n h2 hs hl
    (genericRunGood_of_updClosed L gs chk m hcl hmax data n h2 hs hl hin)

/-- `linkage(.., Centroid | Median)` (routed to `generic_with`) returns normally under the
specification-level run-dependent hypothesis. -/
theorem C12_linkage_run_ok (L : OrderLaws α) (hbeq : BeqLe α) (gs : GoodSet G) (chk : Bool)
    (m : Method) (hm : m = .centroid ∨ m = .median) (hsym : LwSymm α m)
    (hmax : Num.isNaN (Num.maxValue : α) = false)
    (st : State α) (d : Dendrogram α) (data : Array α) (n : Nat) (h2 : 2 ≤ n)
    (hs : n < 2147483648) (hl : 2 * data.size = n * (n - 1))
    (hrun : RunGood G m n data) :
    ∃ r, linkageWith chk m st d data n = .ok r := by
  have hd : dispatch m = .generic := by rcases hm with rfl | rfl <;> rfl
  have hlink : linkageWith chk m st d data n = genericWith chk m st d data n := by
    unfold linkageWith; rw [hd]
  rw [hlink]
  refine C12_generic_run_ok L hbeq gs chk m ?_ hsym hmax st d data n h2 hs hl hrun
  intro h
  rcases hm with rfl | rfl <;> simp [l1Mode] at h

end Run

section Exact
variable {K : Type} [Field K] [LinearOrder K] [IsStrictOrderedRing K] [Num K]

/-- Exact arithmetic, all seven methods: `generic_with` returns normally whenever every table value
of every greedy run of the specification is below `T::max_value()`. -/
theorem C12_generic_run_ok_exact (E : ExactLaws K) (B : BeqExact K) (chk : Bool) (m : Method)
    (st : State K) (d : Dendrogram K) (data : Array K) (n : Nat) (h2 : 2 ≤ n) (hs : n < 2147483648)
    (hl : 2 * data.size = n * (n - 1))
    (hrun : RunGood (fun v : K => v < (Num.maxValue : K)) m n data) :
    ∃ r, genericWith chk m st d data n = .ok r :=
  C12_generic_run_ok E.field.orderLaws (B.beqLe E) (goodSet_exact B E (fun _ h => h)) chk m
    (lbClosed_exact_of_fix E _ m) (E.field.lwSymm m) (E.noNaN _) st d data n h2 hs hl hrun

theorem C12_linkage_run_ok_exact (E : ExactLaws K) (B : BeqExact K) (chk : Bool) (m : Method)
    (hm : m = .centroid ∨ m = .median)
    (st : State K) (d : Dendrogram K) (data : Array K) (n : Nat) (h2 : 2 ≤ n) (hs : n < 2147483648)
    (hl : 2 * data.size = n * (n - 1))
    (hrun : RunGood (fun v : K => v < (Num.maxValue : K)) m n data) :
    ∃ r, linkageWith chk m st d data n = .ok r :=
  C12_linkage_run_ok E.field.orderLaws (B.beqLe E) (goodSet_exact B E (fun _ h => h)) chk m hm
    (E.field.lwSymm m) (E.noNaN _) st d data n h2 hs hl hrun

end Exact

/-! ## Non-vacuity: Ward, centroid, median on NON-constant rational matrices -/
section Example
@[reducible] private def qNumRun12 : Num ℚ := ratNumMax 1000
attribute [local instance] qNumRun12

/-- Ward, `d01 = 1, d02 = 3, d12 = 2`: every hypothesis of `C12_generic_run_total` holds. -/
example : (∃ r, genericWith true .ward State.new (Dendrogram.new 0) (#[1, 3, 2] : Array ℚ) 3
      = .ok r) ∨
    genericWith true .ward State.new (Dendrogram.new 0) (#[1, 3, 2] : Array ℚ) 3
      = .error .nanInSort :=
  C12_generic_run_total (ratNumMax_exact 1000).field.orderLaws
    ((ratNumMax_beq 1000).beqLe (ratNumMax_exact 1000))
    (goodSet_exact (ratNumMax_beq 1000) (ratNumMax_exact 1000) (fun _ h => h)) true .ward
    (lbClosed_exact_of_fix (ratNumMax_exact 1000) _ .ward)
    ((ratNumMax_exact 1000).field.lwSymm .ward) rfl _ _ _ 3 (by decide) (by decide) (by decide)
    runGood_ward3

example : ∃ r, genericWith false .ward State.new (Dendrogram.new 0)
    (#[1, 3, 2, 4, 5, 7] : Array ℚ) 4 = .ok r :=
  C12_generic_run_ok_exact (ratNumMax_exact 1000) (ratNumMax_beq 1000) false .ward _ _ _ 4
    (by decide) (by decide) (by decide) runGood_ward4

example : ∃ r, genericWith true .centroid State.new (Dendrogram.new 0)
    (#[1, 3, 2, 4, 5, 7] : Array ℚ) 4 = .ok r :=
  C12_generic_run_ok_exact (ratNumMax_exact 1000) (ratNumMax_beq 1000) true .centroid _ _ _ 4
    (by decide) (by decide) (by decide) runGood_centroid4

example : ∃ r, linkageWith true .median State.new (Dendrogram.new 0)
    (#[1, 3, 2, 4, 5, 7] : Array ℚ) 4 = .ok r :=
  C12_linkage_run_ok_exact (ratNumMax_exact 1000) (ratNumMax_beq 1000) true .median (Or.inr rfl)
    _ _ _ 4 (by decide) (by decide) (by decide) runGood_median4

end Example

end Kodama
