/-
The number interface the algorithms are written against (mirrors
`src/float.rs` plus the comparison operators the code uses).
Instances: `Float` (f64), `Float32` (f32) for bit-exact correspondence runs,
`Rat`-like exact instances live elsewhere.
-/
namespace Kodama

class Num (α : Type) where
  lt : α → α → Bool          -- `<`  (false when either side is NaN)
  beq : α → α → Bool         -- `==` (IEEE: NaN ≠ NaN, -0 == +0)
  add : α → α → α
  sub : α → α → α
  mul : α → α → α
  div : α → α → α
  ofNat : Nat → α            -- `T::from_usize`
  half : α                   -- `T::from_float(0.5)`
  quarter : α                -- `T::from_float(0.25)`
  sqrt : α → α
  abs : α → α
  maxValue : α               -- `T::max_value()`
  infinity : α               -- `T::infinity()`
  isNaN : α → Bool           -- `partial_cmp` returns `None`

instance : Num Float where
  lt a b := a < b
  beq a b := a == b
  add := Float.add
  sub := Float.sub
  mul := Float.mul
  div := Float.div
  ofNat := Float.ofNat
  half := 0.5
  quarter := 0.25
  sqrt := Float.sqrt
  abs := Float.abs
  maxValue := Float.ofBits 0x7FEFFFFFFFFFFFFF
  infinity := Float.ofBits 0x7FF0000000000000
  isNaN := Float.isNaN

instance : Num Float32 where
  lt a b := a < b
  beq a b := a == b
  add := Float32.add
  sub := Float32.sub
  mul := Float32.mul
  div := Float32.div
  ofNat := Float32.ofNat
  half := 0.5
  quarter := 0.25
  sqrt := Float32.sqrt
  abs := Float32.abs
  maxValue := Float32.ofBits 0x7F7FFFFF
  infinity := Float32.ofBits 0x7F800000
  isNaN := Float32.isNaN

end Kodama
