/-
Driver entry for the C API model (C15, C16).  Requests (the words after `capi`):

  reset                                                   -> `reset`         (empty world)
  <chk 0|1> <tid> create <h> <double|float> <enum index> <n> <bits…>
                                                          -> `created` | `abort <class>` | `undefined`
  <chk> <tid> len <h>      -> `len <k>`   | `undefined`
  <chk> <tid> obs <h>      -> `obs <k>`   | `undefined`
  <chk> <tid> steps <h>    -> `steps len=<l> obs=<o> <c1,c2,bits,size;…>` | `undefined`
  <chk> <tid> clobber <h>  -> `clobbered`
  <chk> <tid> free <h>     -> `freed`     | `undefined`

`create` runs the model of `kodama_linkage_double/float` (`capiLinkageDouble/Float`, assembled
from the regenerated wrapper pieces) on the given bit patterns and, when it returns, files the
result under handle `(tid, h)` with `CApi.step` of Model/CApi.lean; all other requests are `CApi.step`.
The answer lines are the lines the C driver (cdriver/driver.c) prints for the same script.
-/
import Kodama.Model.CApi
namespace Kodama
open CApi (World Handle Op Out)

structure CApiState where
  world : World := {}

private def natsOf (ws : List String) : Option (Array Nat) :=
  ws.foldlM (fun (acc : Array Nat) w => do let n ← w.toNat?; pure (acc.push n)) #[]

private def fmtCSteps (a : Array CStep) : String :=
  ";".intercalate (a.toList.map fun s => s!"{s.c1},{s.c2},{s.d.toBits.toNat},{s.size}")

private def fmtOut (w : World) (h : Handle) (op : String) : Out → String
  | .created => "created"
  | .nat n => s!"{op} {n}"
  | .stepArray a =>
    -- the C driver prints len and obs (read through their own accessors) on the same line
    let l := match (CApi.step w (.len h)).2 with | .nat n => toString n | _ => "?"
    let o := match (CApi.step w (.obs h)).2 with | .nat n => toString n | _ => "?"
    s!"steps len={l} obs={o} {fmtCSteps a}"
  | .done => if op == "free" then "freed" else "clobbered"
  | .undefined => "undefined"

def stepCApi (cs : CApiState) (words : List String) : CApiState × String :=
  match words with
  | ["reset"] => ({}, "reset")
  | chk :: tid :: "create" :: h :: width :: k :: n :: rest =>
    match tid.toNat?, h.toNat?, k.toNat?, n.toNat?, natsOf rest with
    | some tid, some h, some k, some n, some bits =>
      let chk := chk == "1"
      let r : Option (R CDend) :=
        if width == "double" then
          some (capiLinkageDouble chk (some (bits.map fun b => Float.ofBits b.toUInt64)) n k)
        else if width == "float" then
          some (capiLinkageFloat chk (some (bits.map fun b => Float32.ofBits b.toUInt32)) n k)
        else none
      match r with
      | none => (cs, "bad-op")
      | some (.error p) => (cs, s!"abort {p}")
      | some (.ok d) =>
        let (w, o) := CApi.step cs.world (.create (tid, h) d bits)
        ({ world := w }, fmtOut cs.world (tid, h) "create" o)
    | _, _, _, _, _ => (cs, "bad-op")
  | [_chk, tid, op, h] =>
    match tid.toNat?, h.toNat? with
    | some tid, some h =>
      let hd : Handle := (tid, h)
      let mop : Option Op :=
        if op == "len" then some (.len hd) else if op == "obs" then some (.obs hd)
        else if op == "steps" then some (.steps hd) else if op == "clobber" then some (.clobberInput hd #[])
        else if op == "free" then some (.free hd) else none
      match mop with
      | none => (cs, "bad-op")
      | some o =>
        let (w, out) := CApi.step cs.world o
        ({ world := w }, fmtOut cs.world hd op out)
    | _, _ => (cs, "bad-op")
  | _ => (cs, "bad-op")

end Kodama
