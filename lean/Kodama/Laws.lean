/-
Law bundles: exactly the facts about the number type that theorems use, as hypotheses
(never axioms).  Stated so that they are TRUE of IEEE floats including NaN where noted.
-/
import Kodama.Num
namespace Kodama

/-- `<` is a strict weak order on the non-NaN values (true of IEEE `<`: NaN compares false). -/
structure OrderLaws (α : Type) [Num α] : Prop where
  asymm : ∀ a b : α, Num.lt a b = true → Num.lt b a = false
  cotrans : ∀ a b c : α, Num.isNaN b = false → Num.lt a c = true →
    Num.lt a b = true ∨ Num.lt b c = true

/-- Correctly rounded `sqrt` is monotone (vacuous when a NaN is involved: `<` is then false). -/
structure MonoSqrt (α : Type) [Num α] : Prop where
  mono : ∀ a b : α, Num.lt b a = false → Num.lt (Num.sqrt b) (Num.sqrt a) = false

namespace OrderLaws
variable {α : Type} [Num α] (L : OrderLaws α)
include L

theorem irrefl (a : α) : Num.lt a a = false := by
  cases h : Num.lt a a
  · rfl
  · have := L.asymm a a h; rw [h] at this; cases this

/-- `¬ b < a` ("a ≤ b") is transitive through a non-NaN middle element. -/
theorem le_trans (a b c : α) (hb : Num.isNaN b = false)
    (h1 : Num.lt b a = false) (h2 : Num.lt c b = false) : Num.lt c a = false := by
  cases h : Num.lt c a
  · rfl
  · rcases L.cotrans c b a hb h with h' | h'
    · rw [h2] at h'; cases h'
    · rw [h1] at h'; cases h'

theorem le_total (a b : α) : Num.lt b a = false ∨ Num.lt a b = false := by
  cases h : Num.lt b a
  · exact Or.inl rfl
  · exact Or.inr (L.asymm b a h)

end OrderLaws
end Kodama
