-- translator failed: LinkageUnionFind::relabel: unexpected shape (reset; if requires_sorting { steps.sort_by(partial_cmp.expect) }; for i in 0..len { .. })
#exit_translator_failed
