/-
Driver ops for the unit-level correspondence of `LinkageHeap` (through the `kodama_verif` hook
`verif::VHeap`): the model's faithful heap is driven by the same op sequence and prints its whole
observable state (heap order, position table, removed flags, priorities as bit patterns).
-/
import Kodama.Model.State
namespace Kodama

structure HeapSlots where
  h64 : List (Nat × Heap Float) := []
  h32 : List (Nat × Heap Float32) := []

namespace DriverHeap

def getSlot {α} [Num α] (t : List (Nat × Heap α)) (id : Nat) : Heap α :=
  match t.find? (·.1 == id) with
  | some (_, h) => h
  | none => Heap.new

def putSlot {α} (t : List (Nat × Heap α)) (id : Nat) (h : Heap α) : List (Nat × Heap α) :=
  (id, h) :: t.filter (·.1 != id)

def fmtNats (a : Array Nat) : String := ",".intercalate (a.toList.map toString)
def fmtBools (a : Array Bool) : String := ",".intercalate (a.toList.map (fun b => if b then "1" else "0"))

def dump {α} (toBits : α → Nat) (h : Heap α) : String :=
  s!"heap={fmtNats h.heap} obs={fmtNats h.obs} removed={fmtBools h.removed} prio={fmtNats (h.prio.map toBits)}"

def parseNats (ws : List String) : Option (Array Nat) :=
  ws.foldlM (fun (acc : Array Nat) w => do let n ← w.toNat?; pure (acc.push n)) #[]

/-- One op on one heap.  Returns the new heap and the output line. -/
def op {α} [Num α] (ofBits : Nat → α) (toBits : α → Nat) (chk : Bool) (h : Heap α) :
    List String → Heap α × String
  | ["reset", n] =>
    match n.toNat? with
    | some n => let h' : Heap α := Gen.heapReset h n; (h', "ok " ++ dump toBits h')
    | none => (h, "bad-op")
  | "heapify" :: rest =>
    match parseNats rest with
    | some bits =>
      -- the hook's closure copies min(len, given) priorities
      let r := h.heapifyWith chk (fun prio =>
        pure ((List.range prio.size).foldl (fun (p : Array α) i =>
          match bits[i]? with | some b => p.setIfInBounds i (ofBits b) | none => p) prio))
      match r with
      | .ok h' => (h', "ok " ++ dump toBits h')
      | .error p => (h, s!"panic {p}")
    | none => (h, "bad-op")
  | ["pop"] =>
    match h.pop chk with
    | .ok (some o, h') => (h', s!"ok some {o} " ++ dump toBits h')
    | .ok (none, h') => (h', "ok none " ++ dump toBits h')
    | .error p => (h, s!"panic {p}")
  | ["peek"] =>
    match h.peek with
    | some o => (h, s!"ok some {o}")
    | none => (h, "ok none")
  | ["len"] => (h, s!"ok {h.heap.size}")
  | ["prio", o] =>
    match o.toNat? with
    | some o =>
      match h.priority o with
      | .ok v => (h, s!"ok {toBits v}")
      | .error p => (h, s!"panic {p}")
    | none => (h, "bad-op")
  | ["setprio", o, b] =>
    match o.toNat?, b.toNat? with
    | some o, some b =>
      match h.setPriority chk o (ofBits b) with
      | .ok h' => (h', "ok " ++ dump toBits h')
      | .error p => (h, s!"panic {p}")
    | _, _ => (h, "bad-op")
  | _ => (h, "bad-op")

/-- `heap <id> <w> <chk> <op…>` -/
def stepHeap (s : HeapSlots) : List String → HeapSlots × String
  | id :: w :: chk :: rest =>
    match id.toNat? with
    | none => (s, "bad-op")
    | some id =>
      let chk := chk == "1"
      if w == "64" then
        let (h, out) := op (fun n => Float.ofBits n.toUInt64) (fun x => x.toBits.toNat) chk (getSlot s.h64 id) rest
        ({ s with h64 := putSlot s.h64 id h }, out)
      else if w == "32" then
        let (h, out) := op (fun n => Float32.ofBits n.toUInt32) (fun x => x.toBits.toNat) chk (getSlot s.h32 id) rest
        ({ s with h32 := putSlot s.h32 id h }, out)
      else (s, "bad-op")
  | _ => (s, "bad-op")

end DriverHeap
end Kodama
