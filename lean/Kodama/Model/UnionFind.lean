/-
`LinkageUnionFind` (src/union.rs) and `relabel`.

Abstraction (stated in DESIGN §7): `find` is modelled without path
compression.  Compression rewrites `parents` of nodes on the search path to the
root it just found; it changes no root and therefore no value ever returned by
`find`/`union`, which is all that `relabel` observes.
-/
import Kodama.Basic
import Kodama.Num
import Kodama.Generated.Tables
import Kodama.Model.Dendrogram
namespace Kodama

structure UF where
  parents : Array Nat
  next : Nat
  deriving Repr, Inhabited, DecidableEq

namespace UF

def sizeFor (len : Nat) : Nat := if len = 0 then 0 else 2 * len - 1

/-- What `reset(len)` / `with_len(len)` produce. -/
def fresh (len : Nat) : UF := ⟨Array.range (sizeFor len), len⟩

/-- Follow parents to the root.  `fuel` bounds the walk. -/
def findAux (parents : Array Nat) : Nat → Nat → R Nat
  | 0, _ => .error .fuel
  | fuel + 1, x => do
    let p ← aget parents x
    if p = x then pure x else findAux parents fuel p

def find (u : UF) (x : Nat) : R Nat := findAux u.parents (u.parents.size + 1) x

/-- `union(c1, c2)`. -/
def union (u : UF) (c1 c2 : Nat) : R UF := do
  let r1 ← u.find c1
  let r2 ← u.find c2
  if r1 = r2 then pure u else do
    guard' (decide (u.next < u.parents.size))
    let p ← aset u.parents c1 u.next
    let p ← aset p c2 u.next
    pure ⟨p, u.next + 1⟩

end UF

end Kodama
