/-
`LinkageUnionFind` (src/union.rs) and `relabel`.

Abstraction (stated in DESIGN §7): `find` is modelled without path
compression.  Compression rewrites `parents` of nodes on the search path to the
root it just found; it changes no root and therefore no value ever returned by
`find`/`union`, which is all that `relabel` observes.
-/
import Kodama.Basic
import Kodama.Num
import Kodama.Generated.Tables
import Kodama.Model.Dendrogram
namespace Kodama

structure UF where
  parents : Array Nat
  next : Nat
  deriving Repr, Inhabited, DecidableEq

namespace UF

def sizeFor (len : Nat) : Nat := if len = 0 then 0 else 2 * len - 1

/-- What `reset(len)` / `with_len(len)` produce. -/
def fresh (len : Nat) : UF := ⟨Array.range (sizeFor len), len⟩

/-- Follow parents to the root.  `fuel` bounds the walk. -/
def findAux (parents : Array Nat) : Nat → Nat → R Nat
  | 0, _ => .error .fuel
  | fuel + 1, x => do
    let p ← aget parents x
    if p = x then pure x else findAux parents fuel p

def find (u : UF) (x : Nat) : R Nat := findAux u.parents (u.parents.size + 1) x

/-- `union(c1, c2)`. -/
def union (u : UF) (c1 c2 : Nat) : R UF := do
  let r1 ← u.find c1
  let r2 ← u.find c2
  if r1 = r2 then pure u else do
    guard' (decide (u.next < u.parents.size))
    let p ← aset u.parents c1 u.next
    let p ← aset p c2 u.next
    pure ⟨p, u.next + 1⟩

end UF

variable {α : Type} [Num α]

/-- `a ≤ b` as used by the stable sort: `partial_cmp` is not `Greater`. -/
def stepLe (s t : Step α) : Bool := !(Num.lt t.d s.d)

/-- `steps.sort_by(|a,b| a.d.partial_cmp(&b.d).expect(..))`: a stable sort; panics when a
NaN is compared, which happens iff there are ≥ 2 steps and one of them is NaN. -/
def sortSteps (steps : Array (Step α)) : R (Array (Step α)) :=
  if steps.size ≥ 2 ∧ steps.any (fun s => Num.isNaN s.d) then .error .nanInSort
  else pure (steps.toList.mergeSort stepLe).toArray

/-- One iteration of the relabel loop. -/
def relabelStep (obs : Nat) (acc : UF × Array (Step α)) (i : Nat) : R (UF × Array (Step α)) := do
  let (uf, steps) := acc
  let s ← aget steps i
  let r1 ← uf.find s.c1
  let r2 ← uf.find s.c2
  let uf ← uf.union r1 r2
  let size1 ← Dendrogram.clusterSizeOf obs steps r1
  let size2 ← Dendrogram.clusterSizeOf obs steps r2
  let s' := { s.setClusters r1 r2 with size := size1 + size2 }
  let steps ← aset steps i s'
  pure (uf, steps)

/-- `LinkageUnionFind::relabel(dendrogram, method)`; the prior content of the
union-find is irrelevant (it is reset first). Returns the union-find left behind. -/
def relabel (m : Method) (d : Dendrogram α) : R (UF × Dendrogram α) := do
  let uf := UF.fresh d.obs
  let steps ← if m.requiresSorting then sortSteps d.steps else pure d.steps
  let (uf, steps) ← (List.range steps.size).foldlM (relabelStep d.obs) (uf, steps)
  pure (uf, { d with steps := steps })

/-- `Method::sqrt(dend)`. -/
def sqrtSteps (m : Method) (d : Dendrogram α) : Dendrogram α :=
  if m.onSquares then { d with steps := d.steps.map (fun s => { s with d := Num.sqrt s.d }) } else d

/-- `Method::square(matrix)`. -/
def squareData (m : Method) (data : Array α) : Array α :=
  if m.onSquares then data.map (fun x => Num.mul x x) else data

end Kodama
