/-
The op language of the `Dendrogram` container (C19): the mutating part of the public API of
src/dendrogram.rs as data, so that the driver executes and the theorems quantify over the same
`apply`.  Core Lean only.
-/
import Kodama.Model.State
namespace Kodama

/-- One call on a `Dendrogram<T>` value.  `new n` replaces the value by `Dendrogram::new(n)`;
`setClusters i a b` is `d[i].set_clusters(a, b)` (through `IndexMut`); `readOnly` stands for any of
`len / is_empty / observations / steps / d[i] / cluster_size / eq_with_epsilon` (they take `&self`). -/
inductive DOp (α : Type) where
  | new (n : Nat)
  | reset (n : Nat)
  | push (s : Step α)
  | setClusters (i a b : Nat)
  | readOnly
  deriving Repr

namespace Dendrogram
variable {α : Type}

/-- `d[i].set_clusters(a, b)`: the index panics before anything is written. -/
def setClustersAt (d : Dendrogram α) (i a b : Nat) : R (Dendrogram α) := do
  let s ← aget d.steps i
  let steps ← aset d.steps i (s.setClusters a b)
  pure { d with steps := steps }

/-- Effect of one op (`Except`: the panics of the Rust methods). -/
def apply [Num α] (d : Dendrogram α) : DOp α → R (Dendrogram α)
  | .new n => pure (Dendrogram.new n)
  | .reset n => pure (d.reset n)
  | .push s => d.push s
  | .setClusters i a b => d.setClustersAt i a b
  | .readOnly => pure d

/-- An op under `catch_unwind`: a panicking op leaves the value as it was (every method above
panics before its first write). -/
def step [Num α] (d : Dendrogram α) (op : DOp α) : Dendrogram α :=
  match d.apply op with
  | .ok d' => d'
  | .error _ => d

end Dendrogram
end Kodama
