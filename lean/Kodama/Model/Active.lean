/-
Faithful model of `src/active.rs`: a doubly linked list over `0..len` stored in
`start / prev / next` arrays.  Iteration collects the visited elements into a
list (the Rust iterators are lazy, but no loop body in kodama modifies the
active list while iterating over it).
-/
import Kodama.Basic
namespace Kodama

structure Active where
  start : Nat
  prev : Array Nat
  next : Array Nat
  deriving Repr, Inhabited, DecidableEq

namespace Active

/-- `Active::new()`. -/
def new : Active := ⟨0, #[], #[]⟩

/-- What `reset(len)` produces from any prior value (theorem: `Gen.activeReset_eq`). -/
def fresh (len : Nat) : Active :=
  ⟨0, Array.ofFn (n := len) (fun i => i.val), Array.ofFn (n := len) (fun i => i.val + 1)⟩

/-- `contains(i)`: `self.next[i] > 0`. -/
def contains (s : Active) (i : Nat) : R Bool := do
  let v ← aget s.next i
  pure (decide (v > 0))

/-- `remove(i)`. -/
def remove (chk : Bool) (s : Active) (i : Nat) : R Active := do
  let c ← s.contains i
  if !c then pure s else
  let ni ← aget s.next i
  if i = s.start then
    let next ← aset s.next i 0
    pure { s with start := ni, next := next }
  else do
    guard' (decide (i > s.start))
    -- self.prev[self.next[i] - 1] = self.prev[i - 1];
    let im1 ← usub chk i 1
    let pim1 ← aget s.prev im1
    let nim1 ← usub chk ni 1
    let prev ← aset s.prev nim1 pim1
    -- self.next[self.prev[i - 1]] = self.next[i];
    let pim1' ← aget prev im1
    let next ← aset s.next pim1' ni
    let next ← aset next i 0
    pure { s with prev := prev, next := next }

/-- `ActiveRange::next` iterated: visits `cur`, `next[cur]`, … while `< end`.
`fuel` bounds the walk (a cycle in `next` would make the Rust iterator spin). -/
def walk (next : Array Nat) (end_ : Nat) : Nat → Nat → R (List Nat)
  | 0, cur => if cur ≥ end_ ∨ cur ≥ next.size then pure [] else .error .fuel
  | fuel + 1, cur =>
    if cur ≥ end_ ∨ cur ≥ next.size then pure []
    else do
      let nx ← aget next cur
      let rest ← walk next end_ fuel nx
      pure (cur :: rest)

/-- `iter()`. -/
def iter (s : Active) : R (List Nat) :=
  walk s.next s.next.size s.next.size s.start

/-- The `while start < len && !contains(start) { start += 1 }` loop of `range`. -/
def skipInactive (next : Array Nat) : Nat → Nat → Nat
  | 0, start => start
  | fuel + 1, start =>
    if h : start < next.size then
      if next[start] > 0 then start else skipInactive next fuel (start + 1)
    else start

/-- `range(lo..hi)`; `lo = none` is an unbounded start, `hi = none` an unbounded end. -/
def range (s : Active) (lo hi : Option Nat) : R (List Nat) := do
  let start := match lo with | none => s.start | some i => i
  let end_ := match hi with | none => s.next.size | some i => i
  guard' (decide (start ≤ s.next.size))
  guard' (decide (end_ ≤ s.next.size))
  let start := if start < s.start then s.start else start
  let start := skipInactive s.next (s.next.size + 1) start
  walk s.next end_ s.next.size start

end Active
end Kodama
