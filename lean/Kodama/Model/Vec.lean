/- The `Vec` operations the reset bodies use, as total functions on `Array`. -/
namespace Kodama

/-- `Vec::clear`. -/
def vclear {β : Type} (_a : Array β) : Array β := #[]

/-- `Vec::resize(n, v)`: truncate, or extend with copies of `v`. -/
def vresize {β : Type} (a : Array β) (n : Nat) (v : β) : Array β :=
  if a.size ≤ n then a ++ Array.replicate (n - a.size) v else a.extract 0 n

/-- `for i in 0..n { a[i] = f i }` (an out-of-range store would panic in Rust; here it is dropped —
the reset theorems show every store is in range). -/
def vfill {β : Type} (a : Array β) (n : Nat) (f : Nat → β) : Array β :=
  (List.range n).foldl (fun a i => a.setIfInBounds i (f i)) a

/-- `for (i, x) in a.iter_mut().enumerate() { *x = f i }`. -/
def vfillAll {β : Type} (a : Array β) (f : Nat → β) : Array β :=
  a.mapIdx (fun i _ => f i)

end Kodama
