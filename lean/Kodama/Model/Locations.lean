/-
Model of the command line tool `kodama-bin/src/locations.rs` (binary `locations`).

What is modelled, in the order of `run`:

* method selection   `matches.value_of("method").map(|s| s.parse()).unwrap_or(Ok(Method::Single))?`
                     — `selectMethod`; the parser is the *generated* `Method.parse`
                     (translated from `impl FromStr for Method` on every run);
* `haversine`        transcribed operation by operation, in the evaluation order of the source
                     (`to_radians` = multiplication by the constant-folded `PI / 180.0`,
                     `powi(2)` = `x * x`, `2.0 * EARTH_RADIUS` folded by the compiler — the product of
                     a double by 2 is exact, so folding does not change any bit);
* `condensed_distance_matrix`
                     `(0..n).into_par_iter().flat_map(|i| (i+1..n).into_par_iter().map(..)).map(..).collect()`
                     as a *schedule-parametric* evaluation: an arbitrary binary split tree over the
                     outer range, an arbitrary split tree per row over the inner range, the leaf jobs
                     run in an arbitrary order, the per-job vectors concatenated in range order
                     (rayon's contract for `collect` into a `Vec`: for an unindexed iterator such as
                     `flat_map` every split folds into its own `Vec`, the `Vec`s are linked left
                     before right by the reducer and appended in that order);
* `vec_f64_to_file::<LittleEndian>` / `vec_f64_from_file::<LittleEndian>`
                     — `encodeLE` / `decodeLE` on bit patterns (`Nat < 2^64`) and bytes (`List Nat`),
                     with the `len % 8 != 0` rejection;
* `kodama::linkage(&mut condensed, locations.len(), method)` — `run false .linkage` of the library
                     model (the tool is a release binary: `chk = false`);
* the output loop    one row `(cluster1, cluster2, dissimilarity, size)` per step, in order.

NOT modelled (named in `Props/C18.lean`): CSV reading and number parsing (csv/serde), float
printing (ryu), argument parsing (clap), the file system, timing output on stderr.

Core Lean only, so that the driver links.
-/
import Kodama.Model.Linkage
import Kodama.Spec.Pairs
namespace Kodama.Loc

/-! ### Haversine (f64 only: `sin`, `cos`, `atan` are not part of `Num`) -/

/-- `f64::to_radians`: `self * (consts::PI / 180.0)`, the constant folded at compile time to
`0.017453292519943295` = `0x3F91DF46A2529D39`. -/
def radsPerDeg : Float := Float.ofBits 0x3F91DF46A2529D39

def toRadians (x : Float) : Float := x * radsPerDeg

/-- `const EARTH_RADIUS: f64 = 3958.756` = `0x40AEED83126E978D`. -/
def earthRadius : Float := Float.ofBits 0x40AEED83126E978D

/-- `fn haversine(loc1, loc2)`; arguments in degrees. -/
def haversine (latitude1 longitude1 latitude2 longitude2 : Float) : Float :=
  let lat1 := toRadians latitude1
  let lon1 := toRadians longitude1
  let lat2 := toRadians latitude2
  let lon2 := toRadians longitude2
  let deltaLat := lat2 - lat1
  let deltaLon := lon2 - lon1
  let s1 := Float.sin (deltaLat / 2.0)          -- (delta_lat / 2.0).sin()
  let s2 := Float.sin (deltaLon / 2.0)          -- (delta_lon / 2.0).sin()
  -- `x.powi(2)` is `x * x`; `a * b * c` associates to the left
  let a := s1 * s1 + Float.cos lat1 * Float.cos lat2 * (s2 * s2)
  2.0 * earthRadius * Float.atan (Float.sqrt a)

/-! ### The condensed matrix: specification and schedule-parametric evaluation -/

/-- The matrix the tool is meant to build: entry `k` is the distance of the `k`-th pair of the
row-major enumeration of the strict upper triangle (`Spec.pairs`, the layout of C07). -/
def matrixSpec {β : Type} (n : Nat) (f : Nat → Nat → β) : List β :=
  (Spec.pairs n).map (fun p => f p.1 p.2)

/-- How rayon cuts an index range: not at all (`leaf`: the range is folded sequentially by one
job), or at an arbitrary point `lo + min k (hi - lo)` into two halves that are themselves cut
further.  (rayon halves; the model allows every cut point, which includes rayon's.) -/
inductive Split where
  | leaf
  | node (k : Nat) (l r : Split)
  deriving Repr, Inhabited

/-- Cut point of `node k _ _` on the range `lo .. hi`. -/
def cut (k lo hi : Nat) : Nat := lo + min k (hi - lo)

/-- Fork–join evaluation of `(lo..hi).into_par_iter().flat_map(g)` collected in order: a leaf
folds its sub-range left to right, a node returns the left half's result followed by the right
half's (rayon's `ListReducer`/`CollectReducer`: left before right, whichever finishes first). -/
def parRange {β : Type} (g : Nat → List β) : Split → Nat → Nat → List β
  | .leaf, lo, hi => (List.range' lo (hi - lo)).flatMap g
  | .node k l r, lo, hi => parRange g l lo (cut k lo hi) ++ parRange g r (cut k lo hi) hi

/-- A schedule of one run of `condensed_distance_matrix`: how the outer range is cut and, for
every row, how that row's inner range is cut. -/
structure Sched where
  outer : Split
  inner : Nat → Split

/-- `condensed_distance_matrix` under a schedule (fork–join reading). -/
def parMatrix {β : Type} (s : Sched) (n : Nat) (f : Nat → Nat → β) : List β :=
  parRange (fun i => parRange (fun j => [f i j]) (s.inner i) (i + 1) n) s.outer 0 n

/-- The leaf jobs of a split tree on `lo .. hi`, left to right, as half-open sub-ranges. -/
def Split.jobs : Split → Nat → Nat → List (Nat × Nat)
  | .leaf, lo, hi => [(lo, hi)]
  | .node k l r, lo, hi => l.jobs lo (cut k lo hi) ++ r.jobs (cut k lo hi) hi

/-- All sequential jobs of one run: `(i, a, b)` = "row `i`, columns `a .. b`". -/
def allJobs (s : Sched) (n : Nat) : List (Nat × Nat × Nat) :=
  (s.outer.jobs 0 n).flatMap fun o =>
    (List.range' o.1 (o.2 - o.1)).flatMap fun i =>
      ((s.inner i).jobs (i + 1) n).map fun c => (i, c.1, c.2)

/-- What one job computes: the distances of its row segment, left to right. -/
def jobWork {β : Type} (f : Nat → Nat → β) (j : Nat × Nat × Nat) : List β :=
  (List.range' j.2.1 (j.2.2 - j.2.1)).map (f j.1)

/-- Jobs executed in the order `ord` (job numbers; a job may even be listed twice), each result
filed under its job number, the results then concatenated by job number: the "any execution
order, ordered collection" reading of the same pipeline. -/
def runJobs {γ β : Type} (jobs : List γ) (work : γ → List β) (ord : List Nat) : List β :=
  let done : List (Nat × List β) := ord.filterMap fun i => jobs[i]?.map fun j => (i, work j)
  (List.range jobs.length).flatMap fun i => (done.lookup i).getD []

def parMatrixOrd {β : Type} (s : Sched) (ord : List Nat) (n : Nat) (f : Nat → Nat → β) : List β :=
  runJobs (allJobs s n) (jobWork f) ord

/-- rayon's own shape: halve a range of length `len`, `depth` times (used by the driver so that
the executable model really goes through the split/concatenate path). -/
def halving : Nat → Nat → Split
  | 0, _ => .leaf
  | d + 1, len => .node (len / 2) (halving d (len / 2)) (halving d (len - len / 2))

/-- A concrete non-trivial schedule for `n` records, varied by `seed`. -/
def demoSched (seed n : Nat) : Sched :=
  { outer := halving (1 + seed % 4) n
    inner := fun i => halving ((i + seed) % 3) (n - (i + 1)) }

/-! ### Little-endian file codec (`byteorder::LittleEndian`, `write_f64_into` / `read_f64_into`) -/

/-- `u64::to_le_bytes` of a bit pattern. -/
def encodeWord (w : Nat) : List Nat :=
  [w % 256, w / 256 % 256, w / 65536 % 256, w / 16777216 % 256, w / 4294967296 % 256,
   w / 1099511627776 % 256, w / 281474976710656 % 256, w / 72057594037927936 % 256]

/-- `u64::from_le_bytes`. -/
def decodeWord (b0 b1 b2 b3 b4 b5 b6 b7 : Nat) : Nat :=
  b0 + 256 * b1 + 65536 * b2 + 16777216 * b3 + 4294967296 * b4 + 1099511627776 * b5
    + 281474976710656 * b6 + 72057594037927936 * b7

/-- `vec_f64_to_file::<LittleEndian>` on bit patterns: the bytes written. -/
def encodeLE (ws : List Nat) : List Nat := ws.flatMap encodeWord

/-- `vec_f64_from_file::<LittleEndian>`: `none` is the `len must be multiple of 8` error. -/
def decodeLE : List Nat → Option (List Nat)
  | [] => some []
  | b0 :: b1 :: b2 :: b3 :: b4 :: b5 :: b6 :: b7 :: rest =>
    (decodeLE rest).map (decodeWord b0 b1 b2 b3 b4 b5 b6 b7 :: ·)
  | _ => none

/-- `f64::to_bits` / `f64::from_bits` for the number type the pipeline runs on. -/
class Word64 (α : Type) where
  toBits : α → Nat
  ofBits : Nat → α

instance : Word64 Float := ⟨fun x => x.toBits.toNat, fun n => Float.ofBits n.toUInt64⟩

/-! ### The command line pipeline -/

/-- The part of `argv` the model sees.  `load` is the *content* of the file named by
`--load-dist-from` (the file system is not modelled). -/
structure Args where
  method : Option String := none
  load : Option (List Nat) := none
  save : Bool := false

/-- What a run leaves behind: the exit status, the rows written to stdout and the bytes written
to the `--save-dist-to` file (if any). -/
structure Outcome (α : Type) where
  exit : Nat
  rows : List (Nat × Nat × α × Nat)
  saved : Option (List Nat)
  deriving Repr, DecidableEq

/-- `value_of("method").map(|s| s.parse()).unwrap_or(Ok(Method::Single))`; `none` = the `Err`
that `?` turns into exit status 1. -/
def selectMethod : Option String → Option Method
  | none => some .single
  | some s => Method.parse s

/-- One output row per step. -/
def rowOf {α : Type} (s : Step α) : Nat × Nat × α × Nat := (s.c1, s.c2, s.d, s.size)

/-- From `kodama::linkage`'s result to exit status and rows (a panic is exit status 101 with
nothing printed: the CSV writer is created after `linkage` returns). -/
def present {α : Type} (r : R (State α × Dendrogram α × Mat α)) (saved : Option (List Nat)) :
    Outcome α :=
  match r with
  | .ok (_, d, _) => ⟨0, d.steps.toList.map rowOf, saved⟩
  | .error _ => ⟨101, [], saved⟩

/-- `run(matches)` + `main`: `n` records, `dist i j` the distance function applied to records
`i` and `j`. -/
def cliOn {α : Type} [Num α] [Word64 α] (sched : Sched) (args : Args) (n : Nat)
    (dist : Nat → Nat → α) : Outcome α :=
  match selectMethod args.method with
  | none => ⟨1, [], none⟩                       -- unknown method: error, exit(1), nothing printed
  | some m =>
    let loaded : Option (List α) :=
      match args.load with
      | none => some (parMatrix sched n dist)
      | some bytes => (decodeLE bytes).map (·.map Word64.ofBits)
    match loaded with
    | none => ⟨1, [], none⟩                     -- `len must be multiple of 8`
    | some condensed =>
      let saved := if args.save then some (encodeLE (condensed.map Word64.toBits)) else none
      present (run false .linkage m condensed.toArray n) saved

/-- The pipeline on parsed records. -/
def cli {ρ α : Type} [Inhabited ρ] [Num α] [Word64 α] (sched : Sched) (args : Args)
    (records : Array ρ) (distance : ρ → ρ → α) : Outcome α :=
  cliOn sched args records.size (fun i j => distance records[i]! records[j]!)

/-- Distance of two `(latitude, longitude)` records. -/
def recDist (a b : Float × Float) : Float := haversine a.1 a.2 b.1 b.2

/-- The Haversine matrix of the records in file order (specification form). -/
def distMatrix (recs : Array (Float × Float)) : Array Float :=
  (matrixSpec recs.size (fun i j => recDist recs[i]! recs[j]!)).toArray

/-- The tool itself: `locations <csv> [--method s] [--load-dist-from f] [--save-dist-to g]`. -/
def locations (sched : Sched) (args : Args) (recs : Array (Float × Float)) : Outcome Float :=
  cli sched args recs recDist

end Kodama.Loc
