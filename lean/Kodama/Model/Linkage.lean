/- `linkage_with` and the allocating wrappers (src/lib.rs). -/
import Kodama.Model.Mst
import Kodama.Model.Chain
import Kodama.Model.Generic
namespace Kodama
variable {α : Type} [Num α]

/-- `linkage_with`: routes through the generated `dispatch` table. -/
def linkageWith (chk : Bool) (m : Method) (st : State α) (dend : Dendrogram α)
    (data : Array α) (n : Nat) : R (State α × Dendrogram α × Mat α) :=
  match dispatch m with
  | .mst => mstWith chk st dend data n
  | .nnchain =>
    match m.intoMethodChain with
    | some mc => nnchainWith chk mc st dend data n
    | none => .error .unwrapNone
  | .generic => genericWith chk m st dend data n
  | .primitive => primitiveWith chk m st dend data n
  | .linkage => .error .unwrapNone

/-- `alg.accepts m`: which (algorithm, method) pairs exist in the Rust API. -/
def Alg.accepts : Alg → Method → Bool
  | .mst, m => m == .single
  | .nnchain, m => m.intoMethodChain.isSome
  | _, _ => true

/-- The `_with` form of any entry point. -/
def runWith (chk : Bool) (alg : Alg) (m : Method) (st : State α) (dend : Dendrogram α)
    (data : Array α) (n : Nat) : R (State α × Dendrogram α × Mat α) :=
  match alg with
  | .primitive => primitiveWith chk m st dend data n
  | .generic => genericWith chk m st dend data n
  | .mst => if m = .single then mstWith chk st dend data n else .error .unwrapNone
  | .nnchain =>
    match m.intoMethodChain with
    | some mc => nnchainWith chk mc st dend data n
    | none => .error .unwrapNone
  | .linkage => linkageWith chk m st dend data n

/-- The allocating wrapper: fresh state, `Dendrogram::new(observations)`. -/
def run (chk : Bool) (alg : Alg) (m : Method) (data : Array α) (n : Nat) :
    R (State α × Dendrogram α × Mat α) :=
  runWith chk alg m State.new (Dendrogram.new n) data n

end Kodama
