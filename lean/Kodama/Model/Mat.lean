/-
`CondensedMatrix` (src/condensed.rs).  Shape guard and index expression come
from the translator (`Generated/Condensed.lean`).  `acc` counts index
computations exactly where the `kodama_verif` hook in
`matrix_to_condensed_idx` ticks (threaded only through `mst` and `nnchain`,
the algorithms C14 is about).
-/
import Kodama.Basic
import Kodama.Generated.Condensed
namespace Kodama

structure Mat (α : Type) where
  data : Array α
  n : Nat
  acc : Nat := 0

namespace Mat
variable {α : Type}

/-- `CondensedMatrix::new(data, observations)`. -/
def new (chk : Bool) (data : Array α) (observations : Nat) : R (Mat α) := do
  let n ← Gen.shapeM chk data.size observations
  pure { data := data, n := n, acc := 0 }

/-- `matrix_to_condensed_idx`. -/
def idx (chk : Bool) (M : Mat α) (r c : Nat) : R Nat := do
  if chk then guard' (Gen.idxDebugOk M.n r c) .debugIndex
  Gen.idxM chk M.n r c

/-- `dis[[r, c]]` (read). -/
def get (chk : Bool) (M : Mat α) (r c : Nat) : R α := do
  let i ← M.idx chk r c
  aget M.data i

/-- `dis[[r, c]] = v`. -/
def set (chk : Bool) (M : Mat α) (r c : Nat) (v : α) : R (Mat α) := do
  let i ← M.idx chk r c
  let d ← aset M.data i v
  pure { M with data := d }

/-- `k` index computations happened. -/
def tick (M : Mat α) (k : Nat := 1) : Mat α := { M with acc := M.acc + k }

end Mat
end Kodama
