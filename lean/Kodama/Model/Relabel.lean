/- `relabel`, the sort, and `Method::square/sqrt` (src/union.rs, src/lib.rs). -/
import Kodama.Model.Containers
import Kodama.Generated.Reset
import Kodama.Generated.Tables
namespace Kodama

variable {α : Type} [Num α]

/-- `a ≤ b` as used by the stable sort: `partial_cmp` is not `Greater`. -/
def stepLe (s t : Step α) : Bool := !(Num.lt t.d s.d)

/-- `steps.sort_by(|a,b| a.d.partial_cmp(&b.d).expect(..))`: a stable sort; panics when a
NaN is compared, which happens iff there are ≥ 2 steps and one of them is NaN. -/
def sortSteps (steps : Array (Step α)) : R (Array (Step α)) :=
  if steps.size ≥ 2 ∧ steps.any (fun s => Num.isNaN s.d) then .error .nanInSort
  else pure (steps.toList.mergeSort stepLe).toArray

/-- One iteration of the relabel loop. -/
def relabelStep (obs : Nat) (acc : UF × Array (Step α)) (i : Nat) : R (UF × Array (Step α)) := do
  let (uf, steps) := acc
  let s ← aget steps i
  let r1 ← uf.find s.c1
  let r2 ← uf.find s.c2
  let uf ← uf.union r1 r2
  let size1 ← Dendrogram.clusterSizeOf obs steps r1
  let size2 ← Dendrogram.clusterSizeOf obs steps r2
  let s' := { s.setClusters r1 r2 with size := size1 + size2 }
  let steps ← aset steps i s'
  pure (uf, steps)

/-- `LinkageUnionFind::relabel(dendrogram, method)` on the union-find `uf0` (reset first, with the
body translated from src/union.rs). Returns the union-find left behind. -/
def relabel (m : Method) (uf0 : UF) (d : Dendrogram α) : R (UF × Dendrogram α) := do
  let uf := Gen.ufReset uf0 d.obs
  let steps ← if m.requiresSorting then sortSteps d.steps else pure d.steps
  let (uf, steps) ← (List.range steps.size).foldlM (relabelStep d.obs) (uf, steps)
  pure (uf, { d with steps := steps })

/-- `Method::sqrt(dend)`. -/
def sqrtSteps (m : Method) (d : Dendrogram α) : Dendrogram α :=
  if m.onSquares then { d with steps := d.steps.map (fun s => { s with d := Num.sqrt s.d }) } else d

/-- `Method::square(matrix)`. -/
def squareData (m : Method) (data : Array α) : Array α :=
  if m.onSquares then data.map (fun x => Num.mul x x) else data

end Kodama
