/- `LinkageState` (src/lib.rs): scratch space shared by all algorithms. -/
import Kodama.Model.Containers
import Kodama.Generated.Method
import Kodama.Generated.Reset
import Kodama.Model.Relabel
namespace Kodama

/-- `Dendrogram::reset(observations)` — the body translated from src/dendrogram.rs. -/
def Dendrogram.reset {α : Type} [Num α] (d : Dendrogram α) (n : Nat) : Dendrogram α :=
  Gen.dendrogramReset d n

namespace Heap
variable {α : Type} [Num α]

/-- `heapify(f)` where the closure's effect on `priorities` is given as the new array.
(`len = self.priorities.len(); self.reset(len); f(&mut self.priorities); sift…`) -/
def heapifyWith (chk : Bool) (h : Heap α) (newPrio : Array α → R (Array α)) : R (Heap α) := do
  let len := h.prio.size
  let h : Heap α := Gen.heapReset h len
  let prio ← newPrio h.prio
  let h := { h with prio := prio }
  heapifyLoop chk h (List.range (len / 2)).reverse

end Heap

namespace State
variable {α : Type} [Num α]

/-- `LinkageState::new()`. -/
def new : State α := ⟨#[], Active.new, #[], UF.fresh 0, #[], Heap.new, #[]⟩

/-- What `reset(size)` produces from any prior value (theorem `State.reset_eq_fresh`
over the translated reset bodies). -/
def fresh (n : Nat) : State α :=
  ⟨Array.replicate n 1, Active.fresh n, Array.replicate n Num.infinity, UF.fresh n,
   Array.replicate n 0, Heap.fresh n, Array.replicate n 0⟩

/-- `reset(size)` — the body translated from src/lib.rs (and the container resets it calls).
`Lemmas/Reset.lean` proves `reset st n = fresh n` for every `st`. -/
def reset (st : State α) (n : Nat) : State α := Gen.stateReset st n

/-- `merge(dend, c1, c2, d)`. -/
def merge (chk : Bool) (st : State α) (dend : Dendrogram α) (c1 c2 : Nat) (d : α) :
    R (State α × Dendrogram α) := do
  let s1 ← aget st.sizes c1
  let s2 ← aget st.sizes c2
  let sum ← uadd chk s1 s2
  let sizes ← aset st.sizes c2 sum
  let active ← st.active.remove chk c1
  let dend ← dend.push (Step.new c1 c2 d sum)
  pure ({ st with sizes := sizes, active := active }, dend)

end State

/-- The per-pair update `f x va vb` gives the new value of `*b`.  The Lance–Williams formulas
come from `Generated/Method.lean`; `sizes` is read for Ward. -/
def updFn {α : Type} [Num α] (m : Method) (sizes : Array Nat) (sa sb : Nat) (dist : α) :
    Nat → α → α → R α :=
  match m with
  | .single => fun _ va vb => pure (Gen.single va vb)
  | .complete => fun _ va vb => pure (Gen.complete va vb)
  | .average => fun _ va vb => pure (Gen.average va vb sa sb)
  | .weighted => fun _ va vb => pure (Gen.weighted va vb)
  | .ward => fun x va vb => do
      let sx ← aget sizes x
      pure (Gen.ward va vb dist sa sb sx)
  | .centroid => fun _ va vb => pure (Gen.centroid va vb dist sa sb)
  | .median => fun _ va vb => pure (Gen.median va vb dist)

variable {α : Type} [Num α]

/-- `method::f(dis[[ra, ca]], &mut dis[[rb, cb]], ..)`: two index computations. -/
def Mat.update (chk : Bool) (M : Mat α) (upd : Nat → α → α → R α) (x ra ca rb cb : Nat) :
    R (Mat α) := do
  let va ← M.get chk ra ca
  let vb ← M.get chk rb cb
  let v ← upd x va vb
  let M ← M.set chk rb cb v
  pure (M.tick 2)

/-- The three-range update used verbatim by `primitive` and `nnchain`
(`range(..a)`, `range(a..b).skip(1)`, `range(b..).skip(1)`; the merged cluster keeps `b`). -/
def updateRows (chk : Bool) (act : Active) (upd : Nat → α → α → R α) (a b : Nat) (M : Mat α) :
    R (Mat α) := do
  let r1 ← act.range none (some a)
  let M ← r1.foldlM (fun M x => M.update chk upd x x a x b) M
  let r2 ← act.range (some a) (some b)
  let M ← (r2.drop 1).foldlM (fun M x => M.update chk upd x a x x b) M
  let r3 ← act.range (some b) none
  (r3.drop 1).foldlM (fun M x => M.update chk upd x a x b x) M

end Kodama
