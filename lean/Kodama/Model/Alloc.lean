/-
C20 — an executable cost model of kodama's heap allocations.

What is modelled.  Every `Vec` owned by `LinkageState` (11 of them, through `Active`,
`LinkageUnionFind`, `LinkageHeap`) and `Dendrogram::steps` is represented by its CAPACITY in
elements (`Caps`).  A call is replayed as the sequence of capacity-relevant `Vec` operations the
source performs, in source order:

  wrapper only   `Dendrogram::new(n)`            = `Vec::with_capacity(n)`
  `_with`        `steps.reset`                   = `clear` (never frees)
                 return if `n ≤ 1`               (observation count normalised by the shape guard)
                 `state.reset(n)`                = `clear; resize(n, v)` / `resize(n, v)` on the 11 buffers
                 generic route: `heapify`        = `LinkageHeap::reset(priorities.len())` (4 resizes)
                 `n - 1` × `steps.push`
                 nnchain: `chain.clear`, pushes/pops keeping `len ≤ n` (no event, see `chainScript`)
                 `relabel`: `set.reset(n)`       = `parents.resize(2n-1)`
                 `relabel`: stable sort of the steps when `method.requires_sorting()`
  wrapper only   `drop(state)`                   frees the 11 buffers

std's policy, as MEASURED on the pinned toolchain (rustc 1.95, re-validated by every C20 run):

  * `Vec::with_capacity(c)` allocates exactly `c * size_of::<T>()` bytes (nothing when `c = 0`);
  * `clear`, `pop`, `truncate` never touch the allocation;
  * `reserve`/`resize`/`push` beyond the capacity call `RawVec::grow_amortized`:
    new capacity `max(2*cap, required, MIN_NON_ZERO_CAP)` with `MIN_NON_ZERO_CAP` = 8 for 1-byte
    elements, 4 for elements up to 1 KiB, else 1; an empty vector is `alloc`ed, a non-empty one
    `realloc`ed (one request of the new size; old and new block may coexist while it runs);
  * the stable sort (driftsort) uses insertion sort up to 20 elements, a 4096-byte stack buffer
    when `max(len - len/2, min(len, 8_000_000 / size), 48)` elements fit in it, else ONE heap buffer
    of that many elements, freed before the sort returns.

Element sizes: `usize` 8, `bool` 1, `T` 4 or 8, `Step<T>` 32 for both widths (3 × usize + T, padded).

Nothing here depends on the matrix VALUES: `call` does not take the matrix.  The two places where
the Rust control flow is data dependent and touches a `Vec` length are the nearest-neighbour chain
(`chainScript`: any push/pop/clear script that keeps `len ≤ cap` yields no event) and the sort
(scratch size is a function of `len` only).

Core Lean only (the driver links this file).
-/
import Kodama.Generated.Tables
namespace Kodama
namespace Alloc

/-- Float width of the call (`f32` / `f64`). -/
inductive Width where
  | f32 | f64
  deriving DecidableEq, Repr, Inhabited

def Width.bytes : Width → Nat
  | .f32 => 4
  | .f64 => 8

/-- `size_of::<Step<T>>()`: `cluster1, cluster2, size : usize` and `dissimilarity : T`, 8-aligned. -/
def stepBytes (w : Width) : Nat := (3 * 8 + w.bytes + 7) / 8 * 8

/-! ### Allocation events and what is measured on them -/

/-- One call into the global allocator. -/
inductive Ev where
  | alloc (bytes : Nat)
  | free (bytes : Nat)
  | realloc (old new : Nat)
  deriving DecidableEq, Repr, Inhabited

/-- Bytes requested by an event (0 for a free). -/
def Ev.req : Ev → Nat
  | .alloc b => b
  | .free _ => 0
  | .realloc _ n => n

/-- Is the event an allocation request (`alloc` or `realloc`)? -/
def Ev.isReq : Ev → Bool
  | .alloc _ => true
  | .free _ => false
  | .realloc _ _ => true

/-- Number of allocation requests. -/
def count (es : List Ev) : Nat := (es.filter Ev.isReq).length

/-- Number of frees. -/
def frees (es : List Ev) : Nat := (es.filter (fun e => !e.isReq)).length

/-- Total bytes requested. -/
def total : List Ev → Nat
  | [] => 0
  | e :: es => e.req + total es

/-- Largest single request. -/
def largest : List Ev → Nat
  | [] => 0
  | e :: es => max e.req (largest es)

/-- Live bytes after the events, starting from `live`. -/
def liveAfter (live : Nat) : List Ev → Nat
  | [] => live
  | .alloc b :: es => liveAfter (live + b) es
  | .free b :: es => liveAfter (live - b) es
  | .realloc o n :: es => liveAfter (live - o + n) es

/-- Highest number of live bytes reached (the start included).  During a `realloc` the old and
the new block are both counted — exactly what the harness' counting allocator does. -/
def peakFrom (live : Nat) : List Ev → Nat
  | [] => live
  | .alloc b :: es => max live (peakFrom (live + b) es)
  | .free b :: es => max live (peakFrom (live - b) es)
  | .realloc o n :: es => max (live + n) (peakFrom (live - o + n) es)

/-! ### `RawVec` -/

/-- `RawVec::MIN_NON_ZERO_CAP` for an element of `s` bytes. -/
def minNonZeroCap (s : Nat) : Nat := if s = 1 then 8 else if s ≤ 1024 then 4 else 1

/-- `RawVec::grow_amortized`: the capacity chosen when `required > cap`. -/
def growAmortized (s cap required : Nat) : Nat := max (max (2 * cap) required) (minNonZeroCap s)

/-- The allocator call that changes a capacity from `cap` to `cap'` (`finish_grow`). -/
def growEv (s cap cap' : Nat) : Ev :=
  if cap = 0 then .alloc (cap' * s) else .realloc (cap * s) (cap' * s)

/-- Make room for `required` elements in total: new capacity and events. -/
def reserveTo (s cap required : Nat) : Nat × List Ev :=
  if required ≤ cap then (cap, [])
  else (growAmortized s cap required, [growEv s cap (growAmortized s cap required)])

/-- `Vec::with_capacity(n)`. -/
def withCapacity (s n : Nat) : Nat × List Ev :=
  if n = 0 then (0, []) else (n, [.alloc (n * s)])

/-- `Vec::reserve(additional)` on a vector of length `len`. -/
def reserve (s cap len additional : Nat) : Nat × List Ev :=
  if cap - len < additional then
    (growAmortized s cap (len + additional), [growEv s cap (growAmortized s cap (len + additional))])
  else (cap, [])

/-- `Vec::resize(n, v)` on a vector of length `len`: truncation keeps the allocation, extension
reserves `n - len` more.  (`resize_eq_reserveTo`: for `len ≤ cap` this is `reserveTo s cap n`.) -/
def resize (s cap len n : Nat) : Nat × List Ev :=
  if n ≤ len then (cap, []) else reserve s cap len (n - len)

/-- `clear(); resize(n, v)`. -/
def clearResize (s cap n : Nat) : Nat × List Ev := resize s cap 0 n

/-- `Vec::push` on a vector of length `len ≤ cap`: `if len == cap { grow_one() }`. -/
def push (s cap len : Nat) : Nat × List Ev :=
  if len < cap then (cap, []) else reserveTo s cap (len + 1)

/-- `k` pushes starting at length `len`. -/
def pushN (s : Nat) : Nat → Nat → Nat → Nat × List Ev
  | 0, cap, _ => (cap, [])
  | k + 1, cap, len =>
    let r := push s cap len
    let rest := pushN s k r.1 (len + 1)
    (rest.1, r.2 ++ rest.2)

/-! ### The stable sort's scratch buffer (std-internal; measured) -/

/-- Elements of scratch space `driftsort_main` asks for. -/
def sortAllocLen (s len : Nat) : Nat := max (max (len - len / 2) (min len (8000000 / s))) 48

/-- Heap bytes the stable sort of `len` elements of `s` bytes requests (0 = stack buffer). -/
def sortScratchBytes (s len : Nat) : Nat :=
  if len ≤ 20 then 0
  else if sortAllocLen s len * s ≤ 4096 then 0
  else sortAllocLen s len * s

def sortScratch (s len : Nat) : List Ev :=
  if sortScratchBytes s len = 0 then [] else [.alloc (sortScratchBytes s len), .free (sortScratchBytes s len)]

/-! ### kodama's buffers -/

/-- Every `Vec` reachable from `LinkageState`, in the order `LinkageState::reset` touches them,
and `Dendrogram::steps`. -/
inductive Buf where
  | sizes | activePrev | activeNext | minDists | setParents | chain
  | queueHeap | queueObservations | queuePriorities | queueRemoved | nearest
  | steps
  deriving DecidableEq, Repr, Inhabited

/-- The buffers of `LinkageState`, in the order of `LinkageState::reset`. -/
def Buf.stateBufs : List Buf :=
  [.sizes, .activePrev, .activeNext, .minDists, .setParents, .chain,
   .queueHeap, .queueObservations, .queuePriorities, .queueRemoved, .nearest]

/-- The buffers `LinkageHeap::reset` resizes (called again by `heapify`). -/
def Buf.heapBufs : List Buf := [.queueHeap, .queueObservations, .queuePriorities, .queueRemoved]

def Buf.all : List Buf := Buf.stateBufs ++ [.steps]

def Buf.name : Buf → String
  | .sizes => "sizes" | .activePrev => "active.prev" | .activeNext => "active.next"
  | .minDists => "min_dists" | .setParents => "set.parents" | .chain => "chain"
  | .queueHeap => "queue.heap" | .queueObservations => "queue.observations"
  | .queuePriorities => "queue.priorities" | .queueRemoved => "queue.removed"
  | .nearest => "nearest" | .steps => "steps"

/-- Element size in bytes. -/
def Buf.elem (w : Width) : Buf → Nat
  | .minDists => w.bytes
  | .queuePriorities => w.bytes
  | .queueRemoved => 1
  | .steps => stepBytes w
  | _ => 8

/-- `true`: the reset is `clear(); resize(n, v)`; `false`: a bare `resize(n, v)` followed by a
fill loop (same capacity behaviour, `resize_eq_reserveTo`). -/
def Buf.clearsFirst : Buf → Bool
  | .sizes | .minDists | .chain | .nearest | .steps => true
  | _ => false

/-- The observation count after the shape guard (`CondensedMatrix::new` maps `n ≤ 1` to 0). -/
def normObs (n : Nat) : Nat := if n ≤ 1 then 0 else n

/-- Elements buffer `b` must hold in a call with `m = normObs n` observations (`m = 0`: the call
returns before touching the state).  `steps` receives `m - 1` pushes. -/
def Buf.needObs (m : Nat) : Buf → Nat
  | .setParents => if m = 0 then 0 else 2 * m - 1
  | .steps => m - 1
  | _ => m

def Buf.need (n : Nat) (b : Buf) : Nat := b.needObs (normObs n)

/-- Capacities (in elements) of all buffers. -/
abbrev Caps := Buf → Nat

/-- `LinkageState::new()`, `Dendrogram::new(0)`: nothing allocated. -/
def Caps.empty : Caps := fun _ => 0

def Caps.set (c : Caps) (b : Buf) (v : Nat) : Caps := fun b' => if b' = b then v else c b'

def Caps.toList (c : Caps) : List Nat := Buf.all.map c

def Caps.ofList (l : List Nat) : Caps := fun b =>
  (Buf.all.zip l).foldl (fun acc p => if p.1 = b then p.2 else acc) 0

/-- Bytes held by the buffers. -/
def Caps.bytes (w : Width) (c : Caps) : Nat := (Buf.all.map (fun b => c b * b.elem w)).foldl (· + ·) 0

/-- `resize` every buffer of the list to what `m` observations need, in order. -/
def ensureAll (w : Width) (m : Nat) : List Buf → Caps → Caps × List Ev
  | [], c => (c, [])
  | b :: bs, c =>
    let r := reserveTo (b.elem w) (c b) (b.needObs m)
    let rest := ensureAll w m bs (c.set b r.1)
    (rest.1, r.2 ++ rest.2)

/-- `drop(state)` at the end of an allocating wrapper. -/
def dropState (w : Width) (c : Caps) : List Ev :=
  (Buf.stateBufs.filter (fun b => c b ≠ 0)).map (fun b => .free (c b * b.elem w))

/-- Which algorithm runs (`linkage_with` dispatches on the method). -/
def route (alg : Alg) (meth : Method) : Alg :=
  match alg with
  | .linkage => dispatch meth
  | a => a

/-- The method `relabel` is called with (`mst` passes `Method::Single`). -/
def relabelMethod (alg : Alg) (meth : Method) : Method :=
  match alg with
  | .mst => .single
  | _ => meth

/-- The `_with` form on objects with capacities `c`. -/
def callWith (c : Caps) (alg : Alg) (meth : Method) (w : Width) (n : Nat) : Caps × List Ev :=
  let m := normObs n
  if m = 0 then (c, []) else
  let r1 := ensureAll w m Buf.stateBufs c                      -- state.reset(m)
  let r2 := if route alg meth = .generic then ensureAll w m Buf.heapBufs r1.1 else (r1.1, [])
  let r3 := pushN (Buf.steps.elem w) (m - 1) (r2.1 .steps) 0   -- merges
  let c3 := r2.1.set .steps r3.1
  let r4 := ensureAll w m [.setParents] c3                     -- relabel: set.reset(m)
  let e5 := if (relabelMethod alg meth).requiresSorting
            then sortScratch (Buf.steps.elem w) (m - 1) else []
  (r4.1, r1.2 ++ r2.2 ++ r3.2 ++ r4.2 ++ e5)

/-- The allocating wrapper: `LinkageState::new()`, `Dendrogram::new(n)`, the `_with` form,
`drop(state)`. Returns the capacities at the moment the dendrogram is handed back. -/
def callWrapper (alg : Alg) (meth : Method) (w : Width) (n : Nat) : Caps × List Ev :=
  let d := withCapacity (Buf.steps.elem w) n
  let r := callWith (Caps.empty.set .steps d.1) alg meth w n
  (r.1, d.2 ++ r.2 ++ dropState w r.1)

/-- Either form.  For the wrapper the prior capacities are irrelevant (fresh objects). -/
def call (wrapper : Bool) (c : Caps) (alg : Alg) (meth : Method) (w : Width) (n : Nat) :
    Caps × List Ev :=
  if wrapper then callWrapper alg meth w n else callWith c alg meth w n

/-- Bytes live in the objects a call starts from. -/
def baseBytes (wrapper : Bool) (c : Caps) (w : Width) : Nat := if wrapper then 0 else c.bytes w

/-- Peak of the bytes allocated by the call beyond what its objects held on entry. -/
def peakAux (wrapper : Bool) (c : Caps) (alg : Alg) (meth : Method) (w : Width) (n : Nat) : Nat :=
  peakFrom (baseBytes wrapper c w) (call wrapper c alg meth w n).2 - baseBytes wrapper c w

/-! ### The data-dependent `Vec` traffic -/

/-- What `nnchain` does to `state.chain` inside its loop. -/
inductive ChainOp where
  | push | pop | clear
  deriving DecidableEq, Repr

/-- Replay a script of chain operations on a vector with capacity `cap` and length `len`:
final capacity, final length, events. -/
def chainScript (cap len : Nat) : List ChainOp → Nat × Nat × List Ev
  | [] => (cap, len, [])
  | .push :: ops =>
    let r := push 8 cap len
    let rest := chainScript r.1 (len + 1) ops
    (rest.1, rest.2.1, r.2 ++ rest.2.2)
  | .pop :: ops => chainScript cap (len - 1) ops
  | .clear :: ops => chainScript cap 0 ops

/-- The longest the chain gets during a script. -/
def chainMaxLen (len : Nat) : List ChainOp → Nat
  | [] => len
  | .push :: ops => max len (chainMaxLen (len + 1) ops)
  | .pop :: ops => max len (chainMaxLen (len - 1) ops)
  | .clear :: ops => max len (chainMaxLen 0 ops)

/-- `callWith` with the data-dependent part made explicit: `script` is whatever sequence of
pushes, pops and clears the matrix VALUES make `nnchain_with` perform on `state.chain` (after
`state.reset` and the `chain.clear()` that follows it).  For the other algorithms the chain is not
touched.  `C20_value_independent`: every script that keeps the chain within `n` entries gives
exactly `callWith`. -/
def callWithScript (c : Caps) (alg : Alg) (meth : Method) (w : Width) (n : Nat)
    (script : List ChainOp) : Caps × List Ev :=
  let m := normObs n
  if m = 0 then (c, []) else
  let r1 := ensureAll w m Buf.stateBufs c
  let r2 := if route alg meth = .generic then ensureAll w m Buf.heapBufs r1.1 else (r1.1, [])
  let rc := if route alg meth = .nnchain then chainScript (r2.1 .chain) 0 script
            else (r2.1 .chain, 0, [])
  let c2 := r2.1.set .chain rc.1
  let r3 := pushN (Buf.steps.elem w) (m - 1) (c2 .steps) 0
  let c3 := c2.set .steps r3.1
  let r4 := ensureAll w m [.setParents] c3
  let e5 := if (relabelMethod alg meth).requiresSorting
            then sortScratch (Buf.steps.elem w) (m - 1) else []
  (r4.1, r1.2 ++ r2.2 ++ rc.2.2 ++ r3.2 ++ r4.2 ++ e5)

end Alloc
end Kodama
