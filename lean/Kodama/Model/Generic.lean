/- `generic_with` (src/generic.rs): Müllner's generic algorithm. -/
import Kodama.Model.Primitive
namespace Kodama
variable {α : Type} [Num α]

/-- Initial nearest-neighbour scan of one row (the closure passed to `heapify`). -/
def genericInitRow (chk : Bool) (M : Mat α) (n : Nat) (s : Array α × Array Nat) (row : Nat) :
    R (Array α × Array Nat) := do
  let (dists, nearest) := s
  let v0 ← M.get chk row (row + 1)
  let (min, minDist) ← ((List.range n).drop (row + 1)).foldlM (fun (acc : Nat × α) col => do
      let v ← M.get chk row col
      pure (if Num.lt v acc.2 then (col, v) else acc)) (row + 1, v0)
  let dists ← aset dists row minDist
  let nearest ← aset nearest row min
  pure (dists, nearest)

/-- The repair `loop { .. }` at the top of each main-loop iteration. -/
def genericRepair (chk : Bool) (M : Mat α) : Nat → State α → R (State α)
  | 0, _ => .error .fuel
  | fuel + 1, st => do
    let a ← unwrap st.queue.peek
    let na ← aget st.nearest a
    let v ← M.get chk a na
    let p ← st.queue.priority a
    if Num.beq v p then pure st
    else do
      let r ← st.active.range (some a) none
      let (min, nearest) ← (r.drop 1).foldlM (fun (acc : α × Array Nat) x => do
          let v ← M.get chk a x
          if Num.lt v acc.1 then do
            let nearest ← aset acc.2 a x
            pure (v, nearest)
          else pure acc) (Num.maxValue, st.nearest)
      let queue ← st.queue.setPriority chk a min
      genericRepair chk M fuel { st with nearest := nearest, queue := queue }

/-- How the first range fixes up `nearest`/priorities: `fix` for the five methods whose
update cannot go below the row minimum, `lower` for centroid and median. -/
inductive L1Mode | fix | lower
  deriving DecidableEq

def l1Mode : Method → L1Mode
  | .centroid => .lower
  | .median => .lower
  | _ => .fix

/-- `complete` updates no priorities in ranges 2 and 3. -/
def tracksPriorities : Method → Bool
  | .complete => false
  | _ => true

/-- Range 1 body: `for x in range(..a)`. -/
def genericL1 (chk : Bool) (mode : L1Mode) (upd : Nat → α → α → R α) (a b : Nat)
    (s : State α × Mat α) (x : Nat) : R (State α × Mat α) := do
  let (st, M) := s
  let M ← M.update chk upd x x a x b
  match mode with
  | .fix =>
    let nx ← aget st.nearest x
    if nx = a then do
      let nearest ← aset st.nearest x b
      pure ({ st with nearest := nearest }, M)
    else pure (st, M)
  | .lower =>
    let v ← M.get chk x b
    let p ← st.queue.priority x
    if Num.lt v p then do
      let queue ← st.queue.setPriority chk x v
      let nearest ← aset st.nearest x b
      pure ({ st with queue := queue, nearest := nearest }, M)
    else do
      let nx ← aget st.nearest x
      if nx = a then do
        let nearest ← aset st.nearest x b
        pure ({ st with nearest := nearest }, M)
      else pure (st, M)

/-- Range 2 body: `for x in range(a..b).skip(1)`. -/
def genericL2 (chk : Bool) (track : Bool) (upd : Nat → α → α → R α) (a b : Nat)
    (s : State α × Mat α) (x : Nat) : R (State α × Mat α) := do
  let (st, M) := s
  let M ← M.update chk upd x a x x b
  if !track then pure (st, M) else
  let v ← M.get chk x b
  let p ← st.queue.priority x
  if Num.lt v p then do
    let queue ← st.queue.setPriority chk x v
    let nearest ← aset st.nearest x b
    pure ({ st with queue := queue, nearest := nearest }, M)
  else pure (st, M)

/-- Range 3 body: `for x in range(b..).skip(1)`; carries `min`. -/
def genericL3 (chk : Bool) (track : Bool) (upd : Nat → α → α → R α) (a b : Nat)
    (s : State α × Mat α × α) (x : Nat) : R (State α × Mat α × α) := do
  let (st, M, min) := s
  let M ← M.update chk upd x a x b x
  if !track then pure (st, M, min) else
  let v ← M.get chk b x
  if Num.lt v min then do
    let queue ← st.queue.setPriority chk b v
    let nearest ← aset st.nearest b x
    pure ({ st with queue := queue, nearest := nearest }, M, v)
  else pure (st, M, min)

/-- The method-specific update functions of generic.rs. -/
def genericUpdate (chk : Bool) (m : Method) (st : State α) (a b : Nat) (M : Mat α) :
    R (State α × Mat α) := do
  -- `let (size_a, size_b) = ..; let dist = dis[[a, b]];` as far as each method reads them
  let needSizes := match m with | .average | .ward | .centroid => true | _ => false
  let needDist := match m with | .ward | .centroid | .median => true | _ => false
  let sa ← if needSizes then aget st.sizes a else pure 0
  let sb ← if needSizes then aget st.sizes b else pure 0
  let dist ← if needDist then M.get chk a b else pure Num.infinity
  let upd := updFn m st.sizes sa sb dist
  let track := tracksPriorities m
  let r1 ← st.active.range none (some a)
  let (st, M) ← r1.foldlM (genericL1 chk (l1Mode m) upd a b) (st, M)
  let r2 ← st.active.range (some a) (some b)
  let (st, M) ← (r2.drop 1).foldlM (genericL2 chk track upd a b) (st, M)
  let min ← if track then st.queue.priority b else pure Num.infinity
  let r3 ← st.active.range (some b) none
  let (st, M, _) ← (r3.drop 1).foldlM (genericL3 chk track upd a b) (st, M, min)
  pure (st, M)

/-- One iteration of the main loop. -/
def genericIter (chk : Bool) (m : Method) (s : State α × Dendrogram α × Mat α) :
    R (State α × Dendrogram α × Mat α) := do
  let (st, dend, M) := s
  let st ← genericRepair chk M (M.n + 2) st
  let (oa, queue) ← st.queue.pop chk
  let a ← unwrap oa
  let st := { st with queue := queue }
  let b ← aget st.nearest a
  let dist ← M.get chk a b
  let (st, M) ← genericUpdate chk m st a b M
  let (st, dend) ← st.merge chk dend a b dist
  pure (st, dend, M)

/-- `generic_with(state, dis, observations, method, steps)`. -/
def genericWith (chk : Bool) (m : Method) (st : State α) (dend : Dendrogram α)
    (data : Array α) (n : Nat) : R (State α × Dendrogram α × Mat α) := do
  let data := squareData m data
  let M ← Mat.new chk data n
  let dend := dend.reset M.n
  if M.n = 0 then pure (st, dend, M) else
  let st := st.reset M.n
  -- heapify with the initial nearest neighbours
  let nearest0 := st.nearest
  let init ← (List.range (M.n - 1)).foldlM (genericInitRow chk M M.n)
      ((Gen.heapReset st.queue st.queue.prio.size).prio, nearest0)
  let queue ← st.queue.heapifyWith chk (fun _ => pure init.1)
  let st := { st with queue := queue, nearest := init.2 }
  let (st, dend, M) ← iterM (genericIter chk m) (M.n - 1) (st, dend, M)
  let (uf, dend) ← relabel m st.set dend
  let dend := sqrtSteps m dend
  pure ({ st with set := uf }, dend, M)

end Kodama
