/-
`LinkageUnionFind::find` WITH path compression (src/union.rs:73-89), `union` and `relabel` on top of it.

`Model/UnionFind.lean` abstracts compression away; this file is the faithful version: `findC` is the
two `while let` loops of the Rust function, returning the root AND the rewritten `parents` array, so
that the driver can print the very array the real `LinkageUnionFind` holds after every operation
(unit-level correspondence through the hook `verif::VUnionFind`).  `Lemmas/UnionFindCompress.lean`
proves that the abstraction is sound: `relabelC` and `relabel` return the same dendrogram.
Core Lean only.
-/
import Kodama.Model.Relabel
namespace Kodama

namespace UF

/-- The second loop of `find`: `while let Some(p) = self.parent(cluster) { self.parents[cluster] =
root; cluster = p }`. -/
def compressAux (root : Nat) : Nat → Array Nat → Nat → R (Array Nat)
  | 0, _, _ => .error .fuel
  | fuel + 1, p, c => do
    let q ← aget p c
    if q = c then pure p else do
      let p' ← aset p c root
      compressAux root fuel p' q

/-- `find(&mut self, cluster)`: the root, and the union–find with the search path compressed. -/
def findC (u : UF) (x : Nat) : R (Nat × UF) := do
  let r ← u.find x
  let p ← compressAux r (u.parents.size + 1) u.parents x
  pure (r, { u with parents := p })

/-- `union(cluster1, cluster2)` with the compressing `find` (left operand of `==` first). -/
def unionC (u : UF) (c1 c2 : Nat) : R UF := do
  let (r1, u) ← u.findC c1
  let (r2, u) ← u.findC c2
  if r1 = r2 then pure u else do
    guard' (decide (u.next < u.parents.size))
    let p ← aset u.parents c1 u.next
    let p ← aset p c2 u.next
    pure ⟨p, u.next + 1⟩

end UF

variable {α : Type} [Num α]

/-- One iteration of the relabel loop, with the compressing `find`. -/
def relabelStepC (obs : Nat) (acc : UF × Array (Step α)) (i : Nat) : R (UF × Array (Step α)) := do
  let (uf, steps) := acc
  let s ← aget steps i
  let (r1, uf) ← uf.findC s.c1
  let (r2, uf) ← uf.findC s.c2
  let uf ← uf.unionC r1 r2
  let size1 ← Dendrogram.clusterSizeOf obs steps r1
  let size2 ← Dendrogram.clusterSizeOf obs steps r2
  let s' := { s.setClusters r1 r2 with size := size1 + size2 }
  let steps ← aset steps i s'
  pure (uf, steps)

/-- `LinkageUnionFind::relabel` with the compressing `find`. -/
def relabelC (m : Method) (uf0 : UF) (d : Dendrogram α) : R (UF × Dendrogram α) := do
  let uf := Gen.ufReset uf0 d.obs
  let steps ← if m.requiresSorting then sortSteps d.steps else pure d.steps
  let (uf, steps) ← (List.range steps.size).foldlM (relabelStepC d.obs) (uf, steps)
  pure (uf, { d with steps := steps })

end Kodama
