/- The record of scratch containers (`LinkageState`), before any operation on it. -/
import Kodama.Model.Vec
import Kodama.Model.Active
import Kodama.Model.Heap
import Kodama.Model.UnionFind
import Kodama.Model.Dendrogram
import Kodama.Model.Mat
namespace Kodama

structure State (α : Type) where
  sizes : Array Nat
  active : Active
  minDists : Array α
  set : UF
  chain : Array Nat
  queue : Heap α
  nearest : Array Nat

end Kodama
