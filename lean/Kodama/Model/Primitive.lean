/- `primitive_with` (src/primitive.rs). -/
import Kodama.Model.State
namespace Kodama
variable {α : Type} [Num α]

/-- Inner loop of `argmin`. -/
def argminRow (chk : Bool) (M : Mat α) (row : Nat) (cols : List Nat) (min : Nat × Nat × α) :
    R (Nat × Nat × α) :=
  cols.foldlM (fun min col => do
    let v ← M.get chk row col
    pure (if Num.lt v min.2.2 then (row, col, v) else min)) min

/-- `argmin(matrix, active)`. -/
def argmin (chk : Bool) (M : Mat α) (act : Active) : R (Option (Nat × Nat × α)) := do
  let rows ← act.iter
  match rows with
  | [] => pure none
  | row :: _ =>
    let cols ← act.range (some row) none
    match cols.drop 1 with
    | [] => pure none
    | col :: _ =>
      let v ← M.get chk row col
      let min ← rows.foldlM (fun min r => do
        let cs ← act.range (some r) none
        argminRow chk M r (cs.drop 1) min) (row, col, v)
      pure (some min)

/-- One iteration of the main loop. -/
def primitiveIter (chk : Bool) (m : Method) (s : State α × Dendrogram α × Mat α) :
    R (State α × Dendrogram α × Mat α) := do
  let (st, dend, M) := s
  let (a, b, dist) ← unwrap (← argmin chk M st.active)
  let sa ← aget st.sizes a
  let sb ← aget st.sizes b
  let M ← updateRows chk st.active (updFn m st.sizes sa sb dist) a b M
  let (st, dend) ← st.merge chk dend a b dist
  pure (st, dend, M)

/-- Iterate `f` `k` times. -/
def iterM {σ : Type} (f : σ → R σ) : Nat → σ → R σ
  | 0, s => pure s
  | k + 1, s => do
    let s ← f s
    iterM f k s

/-- `primitive_with(state, dis, observations, method, steps)`.  Returns the state and
dendrogram left behind and the (mutated) matrix. -/
def primitiveWith (chk : Bool) (m : Method) (st : State α) (dend : Dendrogram α)
    (data : Array α) (n : Nat) : R (State α × Dendrogram α × Mat α) := do
  let data := squareData m data
  let M ← Mat.new chk data n
  let dend := dend.reset M.n
  if M.n = 0 then pure (st, dend, M) else
  let st := st.reset M.n
  let (st, dend, M) ← iterM (primitiveIter chk m) (M.n - 1) (st, dend, M)
  let (uf, dend) ← relabel m st.set dend
  let dend := sqrtSteps m dend
  pure ({ st with set := uf }, dend, M)

end Kodama
