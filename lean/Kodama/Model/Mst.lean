/- `mst_with` (src/spanning.rs). -/
import Kodama.Model.Primitive
namespace Kodama
variable {α : Type} [Num α]

/-- Loop-carried values of one Prim iteration. -/
structure MstScan (α : Type) where
  minDists : Array α
  minObs : Nat
  minDist : α
  M : Mat α

/-- Body of the two `for x in range(..)` loops: `lower = true` reads `dis[[x, cluster]]`,
otherwise `dis[[cluster, x]]`. -/
def mstScanStep (chk : Bool) (cluster : Nat) (lower : Bool) (s : MstScan α) (x : Nat) :
    R (MstScan α) := do
  let slot ← aget s.minDists x
  let v ← if lower then s.M.get chk x cluster else s.M.get chk cluster x
  let slot := Gen.single v slot
  let minDists ← aset s.minDists x slot
  let M := s.M.tick 1
  if Num.lt slot s.minDist then pure ⟨minDists, x, slot, M⟩
  else pure ⟨minDists, s.minObs, s.minDist, M⟩

/-- One iteration of the main loop; state carries the current `cluster`. -/
def mstIter (chk : Bool) (s : State α × Dendrogram α × Mat α × Nat) :
    R (State α × Dendrogram α × Mat α × Nat) := do
  let (st, dend, M, cluster) := s
  let live ← st.active.iter
  let minObs ← unwrap live.head?
  let minDist ← aget st.minDists minObs
  let r1 ← st.active.range none (some cluster)
  let sc ← r1.foldlM (mstScanStep chk cluster true) ⟨st.minDists, minObs, minDist, M⟩
  let r2 ← st.active.range (some cluster) none
  let sc ← r2.foldlM (mstScanStep chk cluster false) sc
  let st := { st with minDists := sc.minDists }
  let (st, dend) ← st.merge chk dend sc.minObs cluster sc.minDist
  pure (st, dend, sc.M, sc.minObs)

/-- `mst_with(state, dis, observations, steps)`. -/
def mstWith (chk : Bool) (st : State α) (dend : Dendrogram α) (data : Array α) (n : Nat) :
    R (State α × Dendrogram α × Mat α) := do
  let M ← Mat.new chk data n
  let dend := dend.reset M.n
  if M.n = 0 then pure (st, dend, M) else
  let st := st.reset M.n
  let active ← st.active.remove chk 0
  let st := { st with active := active }
  let (st, dend, M, _) ← iterM (mstIter chk) (M.n - 1) (st, dend, M, 0)
  let (uf, dend) ← relabel .single st.set dend
  pure ({ st with set := uf }, dend, M)

end Kodama
