/-
The C API crate (kodama-capi/src/lib.rs).

* `capiLinkageDouble` / `capiLinkageFloat`: the two `kodama_linkage_*` wrappers, assembled from
  the pieces the translator regenerates from the source on every run (`Generated/CApi.lean`):
  NULL assertion, `dis_len` in the build mode's `usize` arithmetic, enumerator conversion,
  field-copy function, the `observations` assignment.  `.error p` = the panic `p` was caught by
  `ffi_fn!` and turned into `abort()` (`Gen.CApi.panicBecomesAbort`).
* `World` / `Op` / `step`: the lifecycle of the dendrogram handles a C caller holds (C16).
  A handle is named `(thread id, index)` by the caller; the model's table maps a live handle to
  the value the library owns for it.  The caller's input buffers are a separate component of the
  world, so that "the input is not retained" is a statement about two different things.

Core Lean only.
-/
import Kodama.Model.Linkage
import Kodama.Generated.CApi
namespace Kodama

/-- `kodama_step` as a C caller reads it (`dissimilarity` is always a C `double`). -/
structure CStep where
  c1 : Nat
  c2 : Nat
  d : Float
  size : Nat
  deriving Inhabited

/-- What the accessors of a `kodama_dendrogram *` return: the step array (`_steps`, `_len`) and
`_observations`. -/
structure CDend where
  steps : Array CStep
  observations : Nat
  deriving Inhabited

/-- Exact widening of a matrix element type to C `double`. -/
class Widen (α : Type) where
  widen : α → Float

instance : Widen Float := ⟨fun x => x⟩
instance : Widen Float32 := ⟨Float32.toFloat⟩

/-- `(cluster1, cluster2, dissimilarity, size)` as produced by the generated copy functions. -/
def CStep.ofTuple (t : Nat × Nat × Float × Nat) : CStep := ⟨t.1, t.2.1, t.2.2.1, t.2.2.2⟩

/-- The source-dependent pieces of one `kodama_linkage_*` function. -/
structure Wrapper (α : Type) where
  nullAssert : Bool
  disLen : Bool → Nat → R Nat
  copy : Nat → Nat → α → Nat → Nat × Nat × Float × Nat
  obs : Nat → Nat → Nat

def wrapperDouble : Wrapper Float :=
  ⟨Gen.CApi.nullAssertDouble, Gen.CApi.disLenDouble, Gen.CApi.copyDouble, Gen.CApi.obsDouble⟩

def wrapperFloat : Wrapper Float32 :=
  ⟨Gen.CApi.nullAssertFloat, Gen.CApi.disLenFloat, Gen.CApi.copyFloat, Gen.CApi.obsFloat⟩

/-- One `kodama_linkage_*` call.  `dis = none` is a NULL pointer; `some buf` points at the
caller's buffer `buf`.  `enumIdx` is the value of the C enumerator.

Two situations are undefined behaviour in the source and therefore outside the model's domain;
they are marked by an error so that no theorem can silently rely on them:
`buf` shorter than `dis_len` (`from_raw_parts_mut` over memory the caller does not own,
marker `.indexOOB`) and an enumerator value that is not a constructor (marker `.unwrapNone`). -/
def capiLinkageW {α : Type} [Num α] (w : Wrapper α) (chk : Bool) (dis : Option (Array α))
    (n : Nat) (enumIdx : Nat) : R CDend := do
  -- assert!(!dis.is_null());
  if w.nullAssert && dis.isNone then throw .assertFail
  let buf := dis.getD #[]
  -- let dis_len = ..;
  let len ← w.disLen chk n
  -- let dis = unsafe { slice::from_raw_parts_mut(dis, dis_len) };
  if buf.size < len then throw .indexOOB
  let data := buf.extract 0 len
  -- method.into_method()
  let m ← match Gen.CApi.intoMethod enumIdx with
    | some m => pure m
    | none => throw .unwrapNone
  -- let dend = linkage(dis, observations, ..);
  let r ← run chk .linkage m data n
  let dend := r.2.1
  -- for step in dend.steps() { c_steps.push(kodama_step { .. }) }
  -- Box::into_raw(Box::new(kodama_dendrogram { steps: c_steps, observations: .. }))
  pure { steps := dend.steps.map (fun s => CStep.ofTuple (w.copy s.c1 s.c2 s.d s.size)),
         observations := w.obs n dend.obs }

/-- `kodama_linkage_double`. -/
def capiLinkageDouble := capiLinkageW wrapperDouble
/-- `kodama_linkage_float`. -/
def capiLinkageFloat := capiLinkageW wrapperFloat

/-! ### Handle lifecycle (C16) -/
namespace CApi

/-- A handle as the caller names it: (thread id, index chosen by that thread). -/
abbrev Handle := Nat × Nat

/-- `live`: the storage the library owns, per handle.  `inputs`: the caller's input buffers
(bit patterns), filed under the handle whose `create` they were passed to. -/
structure World where
  live : Handle → Option CDend := fun _ => none
  inputs : Handle → Option (Array Nat) := fun _ => none

inductive Op where
  /-- `h = kodama_linkage_*(input, ..)`, where the call returned the dendrogram `d`
  (`d` is a function of the input alone: C15 / C08).  The library stores its own copy of `d`. -/
  | create (h : Handle) (d : CDend) (input : Array Nat)
  /-- `kodama_dendrogram_len(h)` -/
  | len (h : Handle)
  /-- `kodama_dendrogram_observations(h)` -/
  | obs (h : Handle)
  /-- `kodama_dendrogram_steps(h)`, reading `len` entries -/
  | steps (h : Handle)
  /-- the caller overwrites the input buffer it passed to `create h` with `garbage`, then frees it -/
  | clobberInput (h : Handle) (garbage : Array Nat)
  /-- `kodama_dendrogram_free(h)` -/
  | free (h : Handle)

inductive Out where
  | created
  | nat (n : Nat)
  | stepArray (a : Array CStep)
  | done
  /-- use of a handle that is not live (read or free after free / before create), or naming a
  new dendrogram with a handle that is still live: not a valid use of the API -/
  | undefined

def Op.handle : Op → Handle
  | .create h _ _ => h | .len h => h | .obs h => h | .steps h => h
  | .clobberInput h _ => h | .free h => h

/-- The thread an operation belongs to. -/
def Op.tid (op : Op) : Nat := op.handle.1

def World.setLive (w : World) (h : Handle) (v : Option CDend) : World :=
  { w with live := fun x => if x = h then v else w.live x }

def World.setInput (w : World) (h : Handle) (v : Option (Array Nat)) : World :=
  { w with inputs := fun x => if x = h then v else w.inputs x }

def step (w : World) : Op → World × Out
  | .create h d input =>
    match w.live h with
    | some _ => (w, .undefined)
    | none => ((w.setLive h (some d)).setInput h (some input), .created)
  | .len h =>
    match w.live h with
    | some d => (w, .nat d.steps.size)
    | none => (w, .undefined)
  | .obs h =>
    match w.live h with
    | some d => (w, .nat d.observations)
    | none => (w, .undefined)
  | .steps h =>
    match w.live h with
    | some d => (w, .stepArray d.steps)
    | none => (w, .undefined)
  | .clobberInput h _garbage =>
    -- first every word of the buffer is overwritten, then the buffer is freed: afterwards the
    -- caller has no buffer for `h`.  The library's table is not touched.
    (w.setInput h none, .done)
  | .free h =>
    match w.live h with
    | some _ => (w.setLive h none, .done)
    | none => (w, .undefined)

/-- Final world of a sequence. -/
def runOps (w : World) (ops : List Op) : World := ops.foldl (fun w op => (step w op).1) w

/-- The outputs of a sequence, in order. -/
def trace : World → List Op → List Out
  | _, [] => []
  | w, op :: ops => (step w op).2 :: trace (step w op).1 ops

/-- Syntactic liveness: is `h` live after `ops`, given whether it was before. -/
def liveAfter (h : Handle) (init : Bool) (ops : List Op) : Bool :=
  ops.foldl (fun b op =>
    match op with
    | .create h' _ _ => if h' = h then true else b
    | .free h' => if h' = h then false else b
    | _ => b) init

end CApi
end Kodama
