/- `Step` and `Dendrogram` (src/dendrogram.rs). -/
import Kodama.Basic
import Kodama.Num
namespace Kodama

structure Step (α : Type) where
  c1 : Nat
  c2 : Nat
  d : α
  size : Nat
  deriving Repr, Inhabited, DecidableEq

/-- `Step::new`: smaller label first. -/
def Step.new {α} (c1 c2 : Nat) (d : α) (size : Nat) : Step α :=
  if c2 < c1 then ⟨c2, c1, d, size⟩ else ⟨c1, c2, d, size⟩

/-- `Step::set_clusters`. -/
def Step.setClusters {α} (s : Step α) (c1 c2 : Nat) : Step α :=
  if c2 < c1 then { s with c1 := c2, c2 := c1 } else { s with c1 := c1, c2 := c2 }

structure Dendrogram (α : Type) where
  steps : Array (Step α)
  obs : Nat
  deriving Repr, Inhabited, DecidableEq

namespace Dendrogram
variable {α : Type}

def new (n : Nat) : Dendrogram α := ⟨#[], n⟩

/-- `push`: `assert!(self.len() < self.observations().saturating_sub(1))`. -/
def push (d : Dendrogram α) (s : Step α) : R (Dendrogram α) := do
  guard' (decide (d.steps.size < d.obs - 1))
  pure { d with steps := d.steps.push s }

def len (d : Dendrogram α) : Nat := d.steps.size
def isEmpty (d : Dendrogram α) : Bool := d.steps.size == 0

/-- `cluster_size(label)` on a raw step array. -/
def clusterSizeOf (obs : Nat) (steps : Array (Step α)) (label : Nat) : R Nat :=
  if label < obs then pure 1
  else do
    let s ← aget steps (label - obs)
    pure s.size

def clusterSize (d : Dendrogram α) (label : Nat) : R Nat :=
  clusterSizeOf d.obs d.steps label

/-- `Step::eq_with_epsilon`.  `self == other` is derived `PartialEq`: labels and
size equal and `d == d'` (IEEE). -/
def Step.eqWithEpsilon [Num α] (s t : Step α) (eps : α) : Bool :=
  if s.c1 == t.c1 && s.c2 == t.c2 && Num.beq s.d t.d && s.size == t.size then true
  else if !(s.c1 == t.c1 && s.c2 == t.c2 && s.size == t.size) then false
  else if Num.lt eps (Num.abs (Num.sub s.d t.d)) then false
  else true

/-- `Dendrogram::eq_with_epsilon`. -/
def eqWithEpsilon [Num α] (d e : Dendrogram α) (eps : α) : Bool :=
  if d.steps.size != e.steps.size then false
  else (d.steps.toList.zip e.steps.toList).all (fun p => Step.eqWithEpsilon p.1 p.2 eps)

end Dendrogram
end Kodama
