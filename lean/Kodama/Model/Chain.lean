/- `nnchain_with` (src/chain.rs). -/
import Kodama.Model.Primitive
namespace Kodama
variable {α : Type} [Num α]

/-- Loop-carried values of the nearest-neighbour searches. -/
structure NN (α : Type) where
  idx : Nat        -- the variable being updated (`b` in the start scan, `a` in the chain loop)
  min : α
  M : Mat α

/-- `if dis[[r,c]] < min { min = dis[[r,c]]; v = x }` with `(r,c) = (fixed,x)` when
`fixedFirst`, else `(x,fixed)`.  One index computation for the test, one more when taken. -/
def nnStep (chk : Bool) (fixed : Nat) (fixedFirst : Bool) (s : NN α) (x : Nat) : R (NN α) := do
  let v ← if fixedFirst then s.M.get chk fixed x else s.M.get chk x fixed
  if Num.lt v s.min then pure ⟨x, v, s.M.tick 2⟩ else pure ⟨s.idx, s.min, s.M.tick 1⟩

/-- State carried by the outer loop. -/
structure ChainSt (α : Type) where
  st : State α
  dend : Dendrogram α
  M : Mat α

/-- `chain[chain.len() - k]`. -/
def chainFromEnd (chk : Bool) (chain : Array Nat) (k : Nat) : R Nat := do
  let i ← usub chk chain.size k
  aget chain i

/-- The inner `loop { .. }` that grows the chain until a reciprocal pair is found.
Returns `(a, b, min, chain, M)` as they are at `break`. -/
def chainGrow (chk : Bool) (act : Active) :
    Nat → Array Nat → Nat → Nat → α → Mat α → R (Nat × Nat × α × Array Nat × Mat α)
  | 0, _, _, _, _, _ => .error .fuel
  | fuel + 1, chain, a, b, min, M => do
    let chain := chain.push b
    let r1 ← act.range none (some b)
    let s ← r1.foldlM (nnStep chk b false) ⟨a, min, M⟩
    let r2 ← act.range (some b) none
    let s ← (r2.drop 1).foldlM (nnStep chk b true) s
    let b := s.idx
    let a ← chainFromEnd chk chain 1
    let p ← chainFromEnd chk chain 2
    if b = p then pure (a, b, s.min, chain, s.M)
    else chainGrow chk act fuel chain a b s.min s.M

/-- The method-specific update functions of chain.rs (Ward reads `dis[[a,b]]` first). -/
def chainUpdate (chk : Bool) (m : MethodChain) (st : State α) (a b : Nat) (M : Mat α) :
    R (Mat α) := do
  match m with
  | .single => updateRows chk st.active (updFn .single st.sizes 0 0 Num.infinity) a b M
  | .complete => updateRows chk st.active (updFn .complete st.sizes 0 0 Num.infinity) a b M
  | .weighted => updateRows chk st.active (updFn .weighted st.sizes 0 0 Num.infinity) a b M
  | .average =>
    let sa ← aget st.sizes a
    let sb ← aget st.sizes b
    updateRows chk st.active (updFn .average st.sizes sa sb Num.infinity) a b M
  | .ward =>
    let dist ← M.get chk a b
    let M := M.tick 1
    let sa ← aget st.sizes a
    let sb ← aget st.sizes b
    updateRows chk st.active (updFn .ward st.sizes sa sb dist) a b M

/-- One iteration of the outer loop. -/
def chainIter (chk : Bool) (m : MethodChain) (s : ChainSt α) : R (ChainSt α) := do
  let st := s.st
  let M := s.M
  let (chain, a, b, min, M) ←
    if st.chain.size < 4 then do
      let live ← st.active.iter
      let a ← unwrap live.head?
      let chain : Array Nat := #[a]
      let b ← unwrap live[1]?
      let min ← M.get chk a b
      let M := M.tick 1
      let r ← st.active.range (some b) none
      let sc ← (r.drop 1).foldlM (nnStep chk a true) ⟨b, min, M⟩
      pure (chain, a, sc.idx, sc.min, sc.M)
    else do
      let chain := st.chain.pop.pop
      let b ← unwrap chain.back?
      let chain := chain.pop
      let a ← chainFromEnd chk chain 1
      let min ← if a < b then M.get chk a b else M.get chk b a
      pure (chain, a, b, min, M.tick 1)
  let (a, b, min, chain, M) ← chainGrow chk st.active (M.data.size + 2) chain a b min M
  let (a, b) := if a > b then (b, a) else (a, b)
  let st := { st with chain := chain }
  let M ← chainUpdate chk m st a b M
  let (st, dend) ← st.merge chk s.dend a b min
  pure ⟨st, dend, M⟩

/-- `nnchain_with(state, dis, observations, method, steps)`. -/
def nnchainWith (chk : Bool) (m : MethodChain) (st : State α) (dend : Dendrogram α)
    (data : Array α) (n : Nat) : R (State α × Dendrogram α × Mat α) := do
  let data := squareData m.intoMethod data
  let M ← Mat.new chk data n
  let dend := dend.reset M.n
  if M.n = 0 then pure (st, dend, M) else
  let st := st.reset M.n
  let st := { st with chain := #[] }
  let s ← iterM (chainIter chk m) (M.n - 1) ⟨st, dend, M⟩
  let (uf, dend) ← relabel m.intoMethod s.st.set s.dend
  let dend := sqrtSteps m.intoMethod dend
  pure ({ s.st with set := uf }, dend, s.M)

end Kodama
