/- `LinkageHeap` (src/queue.rs): indexed binary min-heap, faithful arrays. -/
import Kodama.Basic
import Kodama.Num
namespace Kodama

structure Heap (α : Type) where
  heap : Array Nat
  obs : Array Nat        -- `observations`: position of each observation in `heap`
  prio : Array α
  removed : Array Bool

namespace Heap
variable {α : Type} [Num α]

def new : Heap α := ⟨#[], #[], #[], #[]⟩

/-- What `reset(len)` produces from any prior value. -/
def fresh (len : Nat) : Heap α :=
  ⟨Array.range len, Array.range len, Array.replicate len Num.maxValue, Array.replicate len false⟩

/-- `Vec::swap`. -/
def aswap {β} (a : Array β) (i j : Nat) : R (Array β) := do
  let x ← aget a i
  let y ← aget a j
  let a ← aset a i y
  aset a j x

/-- `swap(o1, o2)`. -/
def swap (h : Heap α) (o1 o2 : Nat) : R (Heap α) := do
  let p1 ← aget h.obs o1
  let p2 ← aget h.obs o2
  let heap ← aswap h.heap p1 p2
  let obs ← aswap h.obs o1 o2
  pure { h with heap := heap, obs := obs }

/-- `sift_down(o)`. -/
def siftDown (chk : Bool) : Nat → Heap α → Nat → R (Heap α)
  | 0, _, _ => .error .fuel
  | fuel + 1, h, o => do
    let i ← aget h.obs o
    let li ← uadd chk (← umul chk 2 i) 1
    let ri ← uadd chk (← umul chk 2 i) 2
    let po ← aget h.prio o
    -- left
    let (child, pc) ← match h.heap[li]? with
      | some l => do
        let pl ← aget h.prio l
        pure (if Num.lt pl po then (l, pl) else (o, po))
      | none => pure (o, po)
    let (child, _pc) ← match h.heap[ri]? with
      | some r => do
        let pr ← aget h.prio r
        pure (if Num.lt pr pc then (r, pr) else (child, pc))
      | none => pure (child, pc)
    if o = child then pure h
    else do
      let h ← h.swap o child
      siftDown chk fuel h o

/-- `sift_up(o)`. -/
def siftUp (chk : Bool) : Nat → Heap α → Nat → R (Heap α)
  | 0, _, _ => .error .fuel
  | fuel + 1, h, o => do
    let i ← aget h.obs o
    if i = 0 then pure h
    else do
      let po ← aget h.heap ((i - 1) / 2)
      let ppo ← aget h.prio po
      let pp ← aget h.prio o
      if Num.lt ppo pp then pure h
      else do
        let h ← h.swap o po
        siftUp chk fuel h o

def fuelFor (h : Heap α) : Nat := h.heap.size + 2

/-- `peek()`. -/
def peek (h : Heap α) : Option Nat := h.heap[0]?

/-- `pop()`. -/
def pop (chk : Bool) (h : Heap α) : R (Option Nat × Heap α) := do
  if h.heap.size = 0 then pure (none, h) else
  let h ← if h.heap.size ≥ 2 then do
      let first ← aget h.heap 0
      let last ← aget h.heap (h.heap.size - 1)
      h.swap first last
    else pure h
  let last ← aget h.heap (h.heap.size - 1)
  let h := { h with heap := h.heap.pop }
  let removed ← aset h.removed last true
  let h := { h with removed := removed }
  let h ← if h.heap.size ≥ 2 then do
      let first ← aget h.heap 0
      siftDown chk h.fuelFor h first
    else pure h
  pure (some last, h)

/-- The `for i in (0..len/2).rev()` loop of `heapify`. -/
def heapifyLoop (chk : Bool) (h : Heap α) : List Nat → R (Heap α)
  | [] => pure h
  | i :: is => do
    let o ← aget h.heap i
    let h ← siftDown chk h.fuelFor h o
    heapifyLoop chk h is

/-- `priority(o)`. -/
def priority (h : Heap α) (o : Nat) : R α := do
  let r ← aget h.removed o
  guard' (!r)
  aget h.prio o

/-- `set_priority(o, p)`. -/
def setPriority (chk : Bool) (h : Heap α) (o : Nat) (p : α) : R (Heap α) := do
  let r ← aget h.removed o
  guard' (!r)
  let old ← aget h.prio o
  let prio ← aset h.prio o p
  let h := { h with prio := prio }
  if Num.lt p old then siftUp chk h.fuelFor h o
  else if Num.lt old p then siftDown chk h.fuelFor h o
  else pure h

end Heap
end Kodama
