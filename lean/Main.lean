import Kodama.Driver
def main : IO Unit := do
  let out ← IO.getStdout
  Kodama.loop (← IO.getStdin) out {}
  out.flush
