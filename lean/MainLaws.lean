/-
`kodama-laws`: evaluates every float-facing law bundle field on a grid of concrete `Float` (f64) and
`Float32` (f32) values (see the header of `Kodama/LawsSample.lean`: this is TESTING of the trusted
assumptions, not a proof).

Output: one line per law and width
  `LAW <Bundle>.<field> width=<64|32> tested=<N> failed=<M> expected=<holds|fails|observed> [first counterexample: …]`
then `NOTE average-reducible=<true|false>`, `NOTE ward-reducible=<true|false>` (no counterexample to
`ChainReducible.ge` for `.average` / `.ward`, as stated, at either width) and
`LAWS-SUMMARY unexpected=<K>`; exit code 0 iff `K = 0`.
`kodama-laws --time` additionally prints the time per law on stderr.

Expectations
* `holds`     the theorems rely on the law as true of IEEE floats on its stated domain (or on the
              domain named in brackets);
* `fails`     the law is documented (docstring / file header) as false for floats, or as a hypothesis
              on a chosen domain that the bracketed instantiation deliberately exceeds:
              `LtTrichotomy` (±0), `LwSymm` single/complete (need `LtTrichotomy`), `Reducible…`,
              `LBClosed`, `ChainReducible` for centroid/median (false even in exact arithmetic;
              for Ward they were `fails` by ROUNDING until the second `fix:` commit of the crate —
              1 906 violations of `ChainReducible.ge[ward]` in 4.1 million sampled updates — and are
              `holds` since: with the guarded clamp `if !(least < c) && value < least then least`
              they are theorems for every `OrderLaws` type, `Spec.reducible_ward`,
              `Spec.reducibleMin_ward`, `lbClosed_ward`, `chainReducible_ward`), `LwNoNaN` / `UpdClosed` / `ChainReducible.nan` for the arithmetic
              formulas on ALL values (∞ − ∞, overflow), `NumHom.maxValue` for scaling, `∀ x, ¬NaN x`;
              `HalfAddLaws.half_double` / `.mid_ge` / `.mid_notNaN` WITHOUT the domain guard
              (overflow at `−max_value`, `∞ + (−∞)`; with `dom=moderate` they are `holds`);
              `Round.add/mul/div[unguarded]` (the standard model WITHOUT its `InRange` guard: overflow,
              underflow) and `Round.ofNat[k>N]` (odd `k` above `2⁵³`/`2²⁴`);
* `observed`  everything that depends on whether the generated `Gen.average` is clamped from below
              (`if mean < least then least else mean`): the outcome is printed, never counted as
              unexpected, and summarised in `NOTE average-reducible`.
-/
import Kodama.LawsSample
open Kodama Kodama.Spec Kodama.LawsSample

inductive Expect where
  | holds | fails | observed
  deriving DecidableEq

def Expect.str : Expect → String
  | .holds => "holds" | .fails => "fails" | .observed => "observed"

structure Law where
  name : String
  expect : Expect
  run64 : Option (Unit → Res)
  run32 : Option (Unit → Res)

def g64 : Grids Float := mkGrids Float
def g32 : Grids Float32 := mkGrids Float32

/-- The same checker term elaborated at both widths (two call sites, so both get specialised). -/
macro "law! " n:term ", " e:term ", " "fun " a:ident g:ident " => " f:term : term =>
  `(Law.mk $n $e
      (some fun _ => (fun ($a : Type) [Num $a] [Sample $a] ($g : Grids $a) => ($f : Res)) Float g64)
      (some fun _ => (fun ($a : Type) [Num $a] [Sample $a] ($g : Grids $a) => ($f : Res)) Float32 g32))

def ks : Array Int := #[-100, -20, -1, 1, 20, 100]
def sizes17 : Array Nat := #[1, 2, 3, 4, 5, 6, 7]
def sizes07 : Array Nat := #[0, 1, 2, 3, 4, 5, 6, 7]
/-- Ward (three sizes) -/
def sizes3 : Array Nat := #[1, 2, 3, 7]
def sizes3z : Array Nat := #[0, 1, 2, 3, 7]
/-- for `UpdHom` (six exponents each) -/
def sizesH : Array Nat := #[1, 3]

/-- The sizes to enumerate for method `m`: `1..7` (`0..7` if the statement allows a zero size), except
for Ward, whose formula reads three sizes (`size_a`, `size_b`, `size_x`): `1,2,3,7` (`0,1,2,3,7`). -/
def szs (m : Method) (zero : Bool) : Array Nat :=
  if m == .ward then (if zero then sizes3z else sizes3) else (if zero then sizes07 else sizes17)

def arith (m : Method) : Bool := m != .single && m != .complete

/-- Expectation of a reducibility-type law (`≥ lower bound`) for method `m`.
`restricted = false`: the statement as it stands (all non-NaN values);  `true`: finite non-negative
values far from overflow (`gMod`).  Weighted, `½(a+b)`: documented false for floats; on the grid it
fails only through overflow to `-∞` (`a = b = -max_value`), never by rounding. -/
def redExpect (restricted : Bool) : Method → Expect
  | .single | .complete => .holds
  | .weighted => if restricted then .holds else .fails
  | .average => .holds   -- since the `fix:` commit 21f2120 (clamp from below); was false before it
  -- since the second `fix:` commit (guarded clamp from below): every law using this expectation
  -- (`Reducible`, `ReducibleMin`, `ReduciblePos`, `LBClosed`, `ChainReducible.ge`) ASSUMES the guarded
  -- situation `dab ≤ bound ≤ min(dax, dbx)` and is now a theorem from `OrderLaws`; was false before it
  | .ward => .holds
  | .centroid | .median => .fails

def redExpectC (restricted : Bool) (m : MethodChain) : Expect := redExpect restricted m.intoMethod

def laws : List Law :=
  [ law! "OrderLaws.asymm", .holds, fun _α g => check_OrderLaws_asymm g.full
  , law! "OrderLaws.cotrans", .holds, fun _α g => check_OrderLaws_cotrans g.mid
  , law! "MonoSqrt.mono", .holds, fun _α g => check_MonoSqrt_mono g.full
  , law! "CommLaws.add_comm", .holds, fun _α g => check_CommLaws_add_comm g.full
  , law! "CommLaws.mul_comm", .holds, fun _α g => check_CommLaws_mul_comm g.full
  , law! "LtTrichotomy", .fails, fun _α g => check_LtTrichotomy g.full
  , law! "BeqLe", .holds, fun _α g => check_BeqLe g.full
  , law! "BeqOrd[non-NaN]", .holds, fun _α g => check_BeqOrd g.full
  , law! "GoodSet.notNaN[G=ltMax]", .holds, fun _α g => check_GoodSet_notNaN gMax g.full
  , law! "GoodSet.ltMax[G=ltMax]", .holds, fun _α g => check_GoodSet_ltMax gMax g.full
  , law! "GoodSet.beqRefl[G=ltMax]", .holds, fun _α g => check_GoodSet_beqRefl gMax g.full
  , law! "GoodSet.notNaN[G=moderate]", .holds, fun _α g => check_GoodSet_notNaN gMod g.full
  , law! "GoodSet.ltMax[G=moderate]", .holds, fun _α g => check_GoodSet_ltMax gMod g.full
  , law! "GoodSet.beqRefl[G=moderate]", .holds, fun _α g => check_GoodSet_beqRefl gMod g.full
  , law! "MaxNotNaN", .holds, fun α _g => check_MaxNotNaN α
  , law! "InfTop.notNaN", .holds, fun α _g => check_InfTop_notNaN α
  , law! "InfTop.top", .holds, fun _α g => check_InfTop_top g.full
  , law! "NoNaNType.all", .fails, fun _α g => check_NoNaNType g.full ] ++
  -- LwSymm
  Method.all.map (fun m =>
    law! s!"LwSymm[{mname m}]", (if arith m then .holds else .fails),
      fun _α g => check_LwSymm m g.g3 (if m == .ward then sizes3 else sizes07)) ++
  -- LwNoNaN
  Method.all.map (fun m =>
    law! s!"LwNoNaN[{mname m}]", (if arith m then .fails else .holds),
      fun _α g => check_LwNoNaN gAll m g.g3 (if m == .ward then sizes3 else sizes07)) ++
  Method.all.map (fun m =>
    law! s!"LwNoNaN[{mname m},dom=moderate]", .holds,
      fun _α g => check_LwNoNaN gMod m g.g3 (szs m false)) ++
  -- Reducible / ReducibleMin / ReduciblePos
  Method.all.map (fun m =>
    law! s!"Reducible[{mname m}]", redExpect false m, fun _α g => check_Reducible false gAll m g.g3 (szs m true)) ++
  Method.all.map (fun m =>
    law! s!"ReducibleMin[{mname m}]", redExpect false m, fun _α g => check_ReducibleMin gAll m g.g3 (szs m true)) ++
  Method.all.map (fun m =>
    law! s!"ReduciblePos[{mname m}]", redExpect false m, fun _α g => check_Reducible true gAll m g.g3 (szs m true)) ++
  Method.all.map (fun m =>
    law! s!"ReduciblePos[{mname m},dom=moderate]", redExpect true m,
      fun _α g => check_Reducible true gMod m g.g3 (szs m false)) ++
  -- UpdClosed
  Method.all.map (fun m =>
    law! s!"UpdClosed[{mname m},G=ltMax]", (if arith m then .fails else .holds),
      fun _α g => check_UpdClosed gMax m g.g3 (szs m true)) ++
  Method.all.map (fun m =>
    law! s!"UpdClosed[{mname m},G=moderate]",
      (match m with | .ward | .centroid | .median => .fails | _ => .holds),
      fun _α g => check_UpdClosed gMod m g.g3 (szs m true)) ++
  -- LBClosed
  Method.all.map (fun m =>
    law! s!"LBClosed[{mname m},G=ltMax]", redExpect false m, fun _α g => check_LBClosed gMax m g.g4 (szs m true)) ++
  Method.all.map (fun m =>
    law! s!"LBClosed[{mname m},G=moderate]", redExpect true m, fun _α g => check_LBClosed gMod m g.g4 (szs m true)) ++
  -- ChainReducible
  MethodChain.all.map (fun m =>
    law! s!"ChainReducible.ge[{cname m}]", redExpectC false m,
      fun _α g => check_ChainReducible_ge gAll m g.g4 (szs m.intoMethod true)) ++
  MethodChain.all.map (fun m =>
    law! s!"ChainReducible.ge[{cname m},dom=moderate]", redExpectC true m,
      fun _α g => check_ChainReducible_ge gMod m g.g4 (szs m.intoMethod true)) ++
  MethodChain.all.map (fun m =>
    law! s!"ChainReducible.nan[{cname m}]",
      (match m with | .single | .complete => .holds | _ => .fails),
      fun _α g => check_ChainReducible_nan gAll m g.g3 (szs m.intoMethod true)) ++
  MethodChain.all.map (fun m =>
    law! s!"ChainReducible.nan[{cname m},dom=moderate]", .holds,
      fun _α g => check_ChainReducible_nan gMod m g.g3 (szs m.intoMethod true)) ++
  -- scaling by 2^k
  [ law! "OrdHom.lt[scale]", .holds,
      fun _α g => overKs ks fun k => check_OrdHom_lt (scale k) (safeVal k) g.full
  , law! "OrdHom.beq[scale]", .holds,
      fun _α g => overKs ks fun k => check_OrdHom_beq (scale k) (safeVal k) g.full
  , law! "OrdHom.isNaN[scale]", .holds,
      fun _α g => overKs ks fun k => check_OrdHom_isNaN (scale k) (safeVal k) g.full
  , law! "NumHom.infinity[scale]", .holds, fun α _g =>
      overKs ks fun k => check_NumHom_infinity (α := α) (scale k)
  , law! "NumHom.maxValue[scale]", .fails, fun α _g =>
      overKs ks fun k => check_NumHom_maxValue (α := α) (scale k)
  , law! "SentinelSafe.lt_r[scale,guard=no-overflow]", .fails,  -- at x = max_value (k<0): needs x, s x ≠ max_value (guard=strict)
      fun _α g => overKs ks fun k => check_SentinelSafe_lt_r (scale k) (noOverflow k) g.full
  , law! "SentinelSafe.lt_l[scale,guard=no-overflow]", .holds,
      fun _α g => overKs ks fun k => check_SentinelSafe_lt_l (scale k) (noOverflow k) g.full
  , law! "SentinelSafe.beq_r[scale,guard=no-overflow]", .fails,  -- at s x = max_value (k=1, x = MAX/2)
      fun _α g => overKs ks fun k => check_SentinelSafe_beq_r (scale k) (noOverflow k) g.full
  , law! "SentinelSafe.lt_r[scale,guard=strict]", .holds,
      fun _α g => overKs ks fun k => check_SentinelSafe_lt_r (scale k) (noOverflowStrict k) g.full
  , law! "SentinelSafe.lt_l[scale,guard=strict]", .holds,
      fun _α g => overKs ks fun k => check_SentinelSafe_lt_l (scale k) (noOverflowStrict k) g.full
  , law! "SentinelSafe.beq_r[scale,guard=strict]", .holds,
      fun _α g => overKs ks fun k => check_SentinelSafe_beq_r (scale k) (noOverflowStrict k) g.full
  , law! "SentinelSafe.lt_mm", .holds, fun α _g => check_SentinelSafe_lt_mm α α
  , law! "ScaleLaws.add", .holds, fun _α g => overKs ks fun k => check_ScaleLaws_add k g.full
  , law! "ScaleLaws.sub", .holds, fun _α g => overKs ks fun k => check_ScaleLaws_sub k g.full
  , law! "ScaleLaws.mul_left", .holds, fun _α g => overKs ks fun k => check_ScaleLaws_mul_left k g.full
  , law! "ScaleLaws.mul_right", .holds, fun _α g => overKs ks fun k => check_ScaleLaws_mul_right k g.full
  , law! "ScaleLaws.div", .holds, fun _α g => overKs ks fun k => check_ScaleLaws_div k g.full
  , law! "ScaleLaws.sqrt", .holds, fun _α g => overKs ks fun k => check_ScaleLaws_sqrt k g.full
  , law! "SqHom.sq[scale]", .holds, fun _α g => overKs ks fun k => check_SqHom_sq k g.full
  , law! "SqHom.sqrt[scale]", .holds, fun _α g => overKs ks fun k => check_ScaleLaws_sqrt k g.full ] ++
  Method.all.map (fun m =>
    law! s!"UpdHom[{mname m},scale]", .holds,
      fun _α g => overKs ks fun k => check_UpdHom m k (if m == .ward || m == .centroid then g.g4 else g.g3) sizesH) ++
  -- Float32 → Float
  [ { name := "OrdHom.lt[Float32.toFloat]", expect := .holds, run64 := none,
      run32 := some fun _ => check_OrdHom_lt Float32.toFloat gAll g32.full }
  , { name := "OrdHom.beq[Float32.toFloat]", expect := .holds, run64 := none,
      run32 := some fun _ => check_OrdHom_beq Float32.toFloat gAll g32.full }
  , { name := "OrdHom.isNaN[Float32.toFloat]", expect := .holds, run64 := none,
      run32 := some fun _ => check_OrdHom_isNaN Float32.toFloat gAll g32.full }
  , { name := "SentinelSafe.lt_r[Float32.toFloat]", expect := .holds, run64 := none,
      run32 := some fun _ => check_SentinelSafe_lt_r Float32.toFloat (fun x => gMax x || Num.isNaN x) g32.full }
  -- C18
  , { name := "Word64.round", expect := .holds, run32 := none,
      run64 := some fun _ => check_Word64_round g64.full }
  , { name := "Word64.bound", expect := .holds, run32 := none,
      run64 := some fun _ => check_Word64_bound g64.full } ]

/-- `HalfAddLaws` (`Lemmas/WeightedMono.lean`): the laws behind the weighted theorems
(`Props/C01Weighted.lean`, `C12Weighted.lean`, `C14Weighted.lean`).  `dom=moderate` is the domain on
which those theorems trust the laws for floats (`holds`); `dom=all` / `dom=nonNaN` is the same statement
without the domain guard: monotonicity survives, `half_double` / `mid_ge` fail by overflow at
`−max_value`, `mid_notNaN` at `∞ + (−∞)`. -/
def halfAddLaws : List Law :=
  [ law! "HalfAddLaws.add_mono_left[dom=moderate]", .holds,
      fun _α g => check_HalfAddLaws_add_mono_left gMod g.mid
  , law! "HalfAddLaws.add_mono_right[dom=moderate]", .holds,
      fun _α g => check_HalfAddLaws_add_mono_right gMod g.mid
  , law! "HalfAddLaws.half_mono[dom=moderate]", .holds,
      fun _α g => check_HalfAddLaws_half_mono gMod g.g3
  , law! "HalfAddLaws.half_double[dom=moderate]", .holds,
      fun _α g => check_HalfAddLaws_half_double gMod g.full
  , law! "HalfAddLaws.half_double[exact,dom=moderate]", .holds,
      fun _α g => check_HalfAddLaws_half_double_exact gMod g.full
  , law! "HalfAddLaws.mid_notNaN[dom=moderate]", .holds,
      fun _α g => check_HalfAddLaws_mid_notNaN gMod g.full
  , law! "HalfAddLaws.mid_ok[dom=moderate]", .holds,
      fun _α g => check_HalfAddLaws_mid_ok gMod g.full
  , law! "HalfAddLaws.mid_ge[derived,dom=moderate]", .holds,
      fun _α g => check_HalfAddLaws_mid_ge gMod g.mid
  -- the same statements without the domain guard
  , law! "HalfAddLaws.add_mono_left[dom=all]", .holds,
      fun _α g => check_HalfAddLaws_add_mono_left gAll g.mid
  , law! "HalfAddLaws.add_mono_right[dom=all]", .holds,
      fun _α g => check_HalfAddLaws_add_mono_right gAll g.mid
  , law! "HalfAddLaws.half_mono[dom=all]", .holds,
      fun _α g => check_HalfAddLaws_half_mono gAll g.g3
  , law! "HalfAddLaws.half_mono[xy-form,dom=all]", .holds,
      fun _α g => check_HalfAddLaws_half_mono_xy g.full
  , law! "HalfAddLaws.half_double[dom=all]", .fails,      -- t = −max_value: t + t = −∞
      fun _α g => check_HalfAddLaws_half_double gAll g.full
  , law! "HalfAddLaws.mid_notNaN[dom=nonNaN]", .fails,    -- ∞ + (−∞)
      fun _α g => check_HalfAddLaws_mid_notNaN gNotNaN g.full
  , law! "HalfAddLaws.mid_ge[derived,dom=all]", .fails,   -- a = b = t = −max_value
      fun _α g => check_HalfAddLaws_mid_ge gAll g.mid ]

/-- `Round.Model val fin u lo hi N` (`Lemmas/RoundModel.lean`, THE STANDARD MODEL OF FLOATING-POINT
ARITHMETIC, assumed by `Props/C02Rounding.lean`), instantiated as the file header of `RoundModel.lean`
says (`fin` = finite, `val` = the exact value, `u = 2⁻⁵³/2⁻²⁴`, `lo` = min normal, `hi` = max finite,
`N = 2⁵³/2²⁴`) and tested with EXACT dyadic arithmetic on the values (`LawsSample.Dy`).  The laws as stated
(guard `InRange lo hi` on the exact result) `holds`; `[unguarded]` is the same statement without the
`InRange` guard: `fails` (overflow to ±∞; for `mul`/`div` also underflow to a subnormal / to 0), i.e. the
guard is necessary; `ofNat[k>N]` (odd `k` above `N`) `fails`: `N` cannot be enlarged. -/
def roundModelLaws : List Law :=
  [ law! "Round.consts", .holds, fun _α g => check_Round_consts (roundGrid g)
  , law! "Round.add", .holds, fun _α g => check_Round_add true (roundGrid g)
  , law! "Round.mul", .holds, fun _α g => check_Round_mul true (roundGrid g)
  , law! "Round.div", .holds, fun _α g => check_Round_div true (roundGrid g)
  , law! "Round.ofNat", .holds, fun α _g => check_Round_ofNat α (natKsLe α)
  , law! "Round.ofNat[k>N]", .fails, fun α _g => check_Round_ofNat α (natKsGt α)
  , law! "Round.half", .holds, fun α _g => check_Round_half α
  , law! "Round.sub", .holds, fun _α g => check_Round_sub true (roundGrid g)
  , law! "Round.quarter", .holds, fun α _g => check_Round_quarter α
  , law! "Round.lt", .holds, fun _α g => check_Round_lt (roundGrid g)
  , law! "Round.finNotNaN", .holds, fun _α g => check_Round_notNaN (roundGrid g)
  , law! "Round.add[unguarded]", .fails, fun _α g => check_Round_add false (roundGrid g)
  , law! "Round.mul[unguarded]", .fails, fun _α g => check_Round_mul false (roundGrid g)
  , law! "Round.div[unguarded]", .fails, fun _α g => check_Round_div false (roundGrid g) ]

/-- Prints the line; returns `(unexpected, failed)`. -/
def report (name : String) (e : Expect) (width : Nat) (r : Res) : IO (Bool × Bool) := do
  let failed := r.failed != 0
  let ce := match r.examples with
    | [] => ""
    | c :: _ => s!" [first counterexample: {c}]"
  IO.println s!"LAW {name} width={width} tested={r.tested} failed={r.failed} expected={e.str}{ce}"
  let unexpected := match e with
    | .holds => failed || r.tested == 0
    | .fails => !failed
    | .observed => false
  if unexpected && !failed && r.tested == 0 then
    IO.println s!"  (nothing tested: the guards excluded every tuple)"
  return (unexpected, failed)

def main (args : List String) : IO UInt32 := do
  let timing := args.contains "--time"
  let t0 ← IO.monoMsNow
  IO.println s!"GRID width=64 full={g64.full.size} mid={g64.mid.size} g3={g64.g3.size} g4={g64.g4.size}"
  IO.println s!"GRID width=32 full={g32.full.size} mid={g32.mid.size} g3={g32.g3.size} g4={g32.g4.size}"
  let mut unexpected := 0
  let mut avgRed := true
  let mut wardRed := true
  for l in laws ++ halfAddLaws ++ roundModelLaws do
    for (w, run) in [(64, l.run64), (32, l.run32)] do
      match run with
      | none => pure ()
      | some f =>
        let s0 ← IO.monoMsNow
        let (u, failed) ← report l.name l.expect w (f ())
        if timing then IO.eprintln s!"TIME {(← IO.monoMsNow) - s0} ms {l.name} width={w}"
        if u then unexpected := unexpected + 1
        if l.name == "ChainReducible.ge[average]" && failed then avgRed := false
        if l.name == "ChainReducible.ge[ward]" && failed then wardRed := false
  IO.println s!"NOTE average-reducible={avgRed}"
  IO.println s!"NOTE ward-reducible={wardRed}"
  IO.println s!"LAWS-SUMMARY unexpected={unexpected}"
  let t1 ← IO.monoMsNow
  IO.eprintln s!"elapsed {t1 - t0} ms"
  return if unexpected == 0 then 0 else 1
